#!/bin/bash
# Runs every registered check of a tier in sequence; prints one line per check.
tier=${1:-quick}
cd /verif
for id in $(python3 -c "import json; print(' '.join(c['property_id'] for c in json.load(open('MANIFEST.json'))['checks']))"); do
  s=$(date +%s)
  ./bin/gosx check $id --tier $tier > /tmp/runall_$id.$tier.log 2>&1
  rc=$?
  e=$(date +%s)
  echo "$id tier=$tier exit=$rc time=$((e-s))s $(tail -1 /tmp/runall_$id.$tier.log | cut -c1-200)"
done
