package sx

import (
	"go/types"
)

// gin routing stub: Engine/RouterGroup keep, per registered route, the
// handler chain as of registration time (Group copies the parent chain, Use
// appends to the group's chain, GET/POST/... snapshot chain + handlers) - the
// documented combineHandlers behaviour of gin. The radix tree, rendering and
// recovery are not encoded.

type ginGroup struct {
	prefix string
	chain  []Value
}

type ginRoute struct {
	method, path string
	chain        []Value
}

func (m *Machine) ginGroupOf(p *Value) *ginGroup {
	key := m.addrKey("gingroup", p)
	if g, ok := m.env[key].(*ginGroup); ok {
		return g
	}
	g := &ginGroup{}
	m.env[key] = g
	return g
}

func (m *Machine) ginRoutes() []*ginRoute {
	r, _ := m.env["gin.routes"].([]*ginRoute)
	return r
}

func joinPath(a, b string) string {
	if b == "" {
		return a
	}
	if len(a) > 0 && a[len(a)-1] == '/' && len(b) > 0 && b[0] == '/' {
		return a + b[1:]
	}
	if len(a) > 0 && a[len(a)-1] != '/' && b[0] != '/' {
		return a + "/" + b
	}
	return a + b
}

func variadic(v Value) []Value {
	s, ok := v.(Slice)
	if !ok {
		return nil
	}
	out := make([]Value, s.Len)
	for i := range out {
		out[i] = *s.at(i)
	}
	return out
}

func init() {
	I := intrinsics
	ginPkg := "github.com/gin-gonic/gin"
	newEngine := func(m *Machine, fr *frame, args []Value) Value {
		m.noteAssumption("stub gin.Engine/RouterGroup: routes keep the handler chain as of registration (gin's combineHandlers); path matching, redirects, 404/405 handling are not encoded")
		t := m.lookupNamed(ginPkg, "Engine")
		p := new(Value)
		*p = m.zero(t)
		return p
	}
	I["github.com/free5gc/util/logger.NewGinWithLogrus"] = newEngine
	I[ginPkg+".New"] = newEngine
	I[ginPkg+".Default"] = newEngine
	grp := "(*" + ginPkg + ".RouterGroup)."
	I[grp+"Group"] = func(m *Machine, fr *frame, args []Value) Value {
		parent := m.ginGroupOf(args[0].(*Value))
		rel, _ := concreteStr(args[1])
		t := m.lookupNamed(ginPkg, "RouterGroup")
		p := new(Value)
		*p = m.zero(t)
		g := m.ginGroupOf(p)
		g.prefix = joinPath(parent.prefix, rel)
		g.chain = append(append([]Value{}, parent.chain...), variadic(args[2])...)
		return p
	}
	I[grp+"Use"] = func(m *Machine, fr *frame, args []Value) Value {
		g := m.ginGroupOf(args[0].(*Value))
		g.chain = append(g.chain, variadic(args[1])...)
		return Iface{T: types.NewPointer(m.lookupNamed(ginPkg, "RouterGroup")), V: args[0]}
	}
	I["(*"+ginPkg+".Engine).Use"] = func(m *Machine, fr *frame, args []Value) Value {
		ep := args[0].(*Value)
		st := m.lookupNamed(ginPkg, "Engine").Underlying().(*types.Struct)
		for i := 0; i < st.NumFields(); i++ {
			if st.Field(i).Name() == "RouterGroup" {
				g := m.ginGroupOf(&(*ep).(Struct)[i])
				g.chain = append(g.chain, variadic(args[1])...)
			}
		}
		return Iface{T: types.NewPointer(m.lookupNamed(ginPkg, "Engine")), V: ep}
	}
	reg := func(method string) NativeFn {
		return func(m *Machine, fr *frame, args []Value) Value {
			g := m.ginGroupOf(args[0].(*Value))
			rel, _ := concreteStr(args[1])
			r := &ginRoute{method: method, path: joinPath(g.prefix, rel), chain: append(append([]Value{}, g.chain...), variadic(args[2])...)}
			m.env["gin.routes"] = append(m.ginRoutes(), r)
			return Iface{T: types.NewPointer(m.lookupNamed(ginPkg, "RouterGroup")), V: args[0]}
		}
	}
	for _, mth := range []string{"GET", "POST", "PUT", "PATCH", "DELETE", "OPTIONS", "HEAD"} {
		I[grp+mth] = reg(mth)
	}
	I[grp+"Any"] = reg("ANY")
	I[grp+"Handle"] = func(m *Machine, fr *frame, args []Value) Value {
		g := m.ginGroupOf(args[0].(*Value))
		method, _ := concreteStr(args[1])
		rel, _ := concreteStr(args[2])
		r := &ginRoute{method: method, path: joinPath(g.prefix, rel), chain: append(append([]Value{}, g.chain...), variadic(args[3])...)}
		m.env["gin.routes"] = append(m.ginRoutes(), r)
		return Iface{T: types.NewPointer(m.lookupNamed(ginPkg, "RouterGroup")), V: args[0]}
	}
	I["(net/http.Header).Get"] = func(m *Machine, fr *frame, args []Value) Value {
		mp, _ := args[0].(*Map)
		if mp == nil {
			return ""
		}
		if e := m.mapFind(fr, mp, args[1]); e != nil {
			s := e.V.(Slice)
			if s.Len > 0 {
				return *s.at(0)
			}
		}
		return ""
	}
	I["github.com/free5gc/openapi/oauth.VerifyOAuth"] = func(m *Machine, fr *frame, args []Value) Value {
		m.noteAssumption("stub oauth.VerifyOAuth: returns a non-nil error for a token that is absent, malformed, of the wrong algorithm or not signed by the NRF key (the harness selects that case), nil otherwise; JWT cryptography is not encoded")
		m.env["verifyCalls"] = asInt(m.env["verifyCalls"]) + 1
		if m.cfg("oauth.tokenInvalid") {
			return m.newError("verify OAuth: invalid token")
		}
		// with a designated good token (vx.Register("oauth.goodToken", header)):
		// exactly that Authorization header verifies
		if g, ok := m.env["reg:oauth.goodToken"]; ok {
			gs, _ := concreteStr(g.(Iface).V)
			ts, isConc := concreteStr(args[0])
			if !isConc || ts != gs {
				return m.newError("verify OAuth: signature does not verify")
			}
		}
		return Iface{}
	}

	p := vxPkg + "."
	I[p+"GinRoutes"] = func(m *Machine, fr *frame, args []Value) Value { return m.i64(int64(len(m.ginRoutes()))) }
	I[p+"GinRouteMethod"] = func(m *Machine, fr *frame, args []Value) Value { return m.ginRoutes()[mustInt(args[0])].method }
	I[p+"GinRoutePath"] = func(m *Machine, fr *frame, args []Value) Value { return m.ginRoutes()[mustInt(args[0])].path }
	I[p+"GinChainLen"] = func(m *Machine, fr *frame, args []Value) Value {
		return m.i64(int64(len(m.ginRoutes()[mustInt(args[0])].chain)))
	}
	// GinServe runs the handler chain of route i on context c until it is
	// aborted and returns the number of handlers that ran.
	I[p+"GinServe"] = func(m *Machine, fr *frame, args []Value) Value {
		r := m.ginRoutes()[mustInt(args[0])]
		cp := ptrArg(args[1])
		n := 0
		for _, h := range r.chain {
			if m.gin(cp).aborted {
				break
			}
			m.call(h, fr, []Value{cp})
			n++
		}
		return m.i64(int64(n))
	}
	I[p+"VerifyCalls"] = func(m *Machine, fr *frame, args []Value) Value { return m.i64(int64(asInt(m.env["verifyCalls"]))) }
}
