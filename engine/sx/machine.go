package sx

import (
	"fmt"
	"os"
	"sort"
	"strings"
	"sync/atomic"
	"time"

	"golang.org/x/tools/go/ssa"

	"gosx/smt"
)

type decKind uint8

const (
	dBranch decKind = iota
	dChoice
	dValue
)

type decision struct {
	kind     decKind
	chosen   int // branch: 0 = true, 1 = false; choice: index
	n        int
	checked  bool
	noAlt    bool     // branch: the other side is known infeasible
	altOK    bool     // branch: the other side is known feasible (no re-check)
	val      uint64   // dValue: current value
	explored []uint64 // dValue: values already explored
}

// Finding is a violated obligation (assertion or implicit panic).
type Finding struct {
	Harness string            `json:"harness"`
	Kind    string            `json:"kind"` // "assert" | "panic" | "blocked"
	Name    string            `json:"name"` // assertion name or panic class
	Site    string            `json:"site"` // function: expression
	Inputs  []InputVal        `json:"inputs"`
	Known   string            `json:"known,omitempty"`
	Region  string            `json:"region,omitempty"`
	Trace   []string          `json:"trace,omitempty"`
	Extra   map[string]string `json:"extra,omitempty"`
}

func (f *Finding) Key() string { return f.Kind + "|" + f.Name + "|" + f.Site }

type InputVal struct {
	Label string   `json:"label"`
	Kind  string   `json:"kind"`
	Vals  []uint64 `json:"vals"`
	W     int      `json:"w"`
}

type inputRec struct {
	label string
	kind  string
	terms []*smt.Term
	w     int
}

// Region is a known-finding region: a predicate over labelled inputs.
type Region struct {
	ID      string // known finding id
	Kind    string // assert|panic
	Name    string // assertion name / panic class ("" = any)
	Site    string // substring of site ("" = any)
	Pred    *ssa.Function
	PredStr string
}

type Stats struct {
	Paths, Infeasible, UnwindHits, Unsupported, Blocked int
	Instrs                                              int64
	AssertReached                                       map[string]int
	AssertProved                                        map[string]int
	Inconclusive                                        []string
	UnsupportedMsgs                                     map[string]int
	UnknownFeas                                         int
	Funcs                                               map[*ssa.Function]int
	Samples                                             []map[string]interface{}
	HavocFloat                                          int
}

// Explorer drives depth-first exploration of one harness by re-execution.
type Explorer struct {
	P       *Program
	C       *smt.Ctx
	Lin     *smt.Solver // bit-vector solver
	NL      *smt.Solver // solver for nonlinear queries
	Harness string
	Opt     Options
	trail   []decision
	Stats   Stats
	// findings keyed by Key(); first witness kept.
	Findings map[string]*Finding
	Order    []string
	Regions  []*Region
	// KnownSeen: known finding id -> witnessed
	KnownSeen map[string]*Finding
	cache     map[string]smt.Result
	solvers   [4]*smt.Solver
	deadline  time.Time
	Trace     bool
	Emitted   []string
	assumed   map[string]bool
	accesses  map[string]*accessSummary
	stopAt    time.Time
	// CutShort: exploration ended early because a violation was already found
	CutShort bool
}

// Solvers returns the used solver handles (for statistics).
func (e *Explorer) Solvers() []*smt.Solver {
	var out []*smt.Solver
	for _, s := range e.solvers {
		if s != nil {
			out = append(out, s)
		}
	}
	return out
}

// Assumptions lists the stubs and assumptions that were actually used.
func (e *Explorer) Assumptions() []string {
	var out []string
	for k := range e.assumed {
		out = append(out, k)
	}
	sort.Strings(out)
	return out
}

func (m *Machine) noteAssumption(s string) {
	if m.E.assumed == nil {
		m.E.assumed = map[string]bool{}
	}
	m.E.assumed[s] = true
}

type Options struct {
	Unwind        int
	MaxPaths      int
	TimeoutMs     int
	FeasTimeoutMs int    // timeout of feasibility queries (unknown = keep the path)
	Solver        string // "z3" (default), "z3-new", "cvc5"
	NLSolver      string // default "cvc5-int"
	StrictCap     bool   // flag reslicing beyond len (within cap)
	// NonTermViolation: exceeding the unwinding bound is reported as a
	// finding (for harnesses whose inputs bound every legitimate loop well
	// below it); MaxSteps lowers the per-path instruction budget.
	NonTermViolation bool
	MaxSteps         int
	InitPkgs         []string
	MaxSeconds       int
	Twin             bool // reachability twin: every vx.Assert becomes assert(false)
	// StopOnFinding ends the exploration at the first finding.
	StopOnFinding bool
	// Params are harness parameters (vx.Param).
	Params map[string]string
	// Stop, when non-nil, is shared by the harnesses of one check: it is set
	// when a finding has been made anywhere; exploration of every harness then
	// winds down after a short grace period (more paths add little once the
	// property is known to be violated).
	Stop *int32
	// Fixed, when non-nil, pins every labelled input to a recorded value
	// (concrete re-execution of a counterexample inside the engine).
	Fixed map[string][]uint64
}

// solver kinds: [fast?][nonlinear?]
func (e *Explorer) getSolver(nl, fast bool) *smt.Solver {
	idx := 0
	if nl {
		idx |= 1
	}
	if fast {
		idx |= 2
	}
	if e.solvers[idx] != nil {
		return e.solvers[idx]
	}
	kind := e.Opt.Solver
	if kind == "" {
		kind = "z3"
	}
	if nl {
		kind = e.Opt.NLSolver
		if kind == "" {
			kind = "cvc5-int"
		}
	}
	to := e.Opt.TimeoutMs
	if fast {
		to = e.Opt.FeasTimeoutMs
	}
	sv, err := smt.NewSolver(kind, to)
	if err != nil {
		panic(err)
	}
	if lf := os.Getenv("GOSX_SMTLOG"); lf != "" {
		f, _ := os.Create(fmt.Sprintf("%s.%d", lf, idx))
		sv.Log = f
	}
	e.solvers[idx] = sv
	if !fast {
		if nl {
			e.NL = sv
		} else {
			e.Lin = sv
		}
	}
	return sv
}

func (e *Explorer) Close() {
	for _, s := range e.solvers {
		s.Close()
	}
}

func isNL(ts []*smt.Term) bool {
	for _, t := range ts {
		if t.NL {
			return true
		}
	}
	return false
}

// check decides satisfiability of the conjunction. Back ends are tried in
// turn: first both with the short feasibility timeout (most queries are
// answered by one of them in well under a second, and which one is fast is
// hard to predict), then - unless fast is set - both with the long timeout.
func (e *Explorer) check(ts []*smt.Term, vals []*smt.Term, fast bool) (smt.Result, []uint64) {
	nl := isNL(ts)
	var k string
	if len(vals) == 0 {
		var sb strings.Builder
		for _, t := range ts {
			fmt.Fprintf(&sb, "%d,", t.ID)
		}
		k = sb.String()
		if r, ok := e.cache[k]; ok && (r != smt.Unknown || fast) {
			return r, nil
		}
	}
	type cfg struct{ nl, fast bool }
	order := []cfg{{nl, true}, {!nl, true}}
	if !fast {
		order = append(order, cfg{nl, false}, cfg{!nl, false})
	}
	r := smt.Unknown
	var v []uint64
	for _, c := range order {
		r, v = e.getSolver(c.nl, c.fast).Check(ts, vals)
		if r != smt.Unknown {
			break
		}
	}
	if len(vals) == 0 {
		e.cache[k] = r
	}
	return r, v
}

// ---- path aborts ----

type abortKind int

const (
	abInfeasible abortKind = iota
	abUnwind
	abUnsupported
	abBlocked
	abDone // path ended on purpose (e.g. after a definite violation)
)

type pathAbort struct {
	kind abortKind
	msg  string
}

// GoPanic is a Go-level panic propagating through interpreted frames.
type GoPanic struct {
	Val   Value
	Class string // runtime error class, "" for explicit panic()
	Site  string
	Msg   string
	Stack string
}

// Machine executes one path.
type Machine struct {
	E        *Explorer
	C        *smt.Ctx
	P        *Program
	pos      int
	pc       []*smt.Term
	inputs   []inputRec
	labelCnt map[string]int
	globals  map[*ssa.Global]*Value
	inited   map[*ssa.Package]bool
	locks    map[*Value]*lockState
	lockSeq  []string
	depth    int
	env      map[string]interface{} // per-path state for intrinsics
	tags     map[string]Value
	nfresh   int
	curSite  string
	steps    int64
	events   []string
	pcSet    map[*smt.Term]bool
	// isAssumption marks path-condition conjuncts that come from vx.Assume
	isAssumption map[*smt.Term]bool
	// pins keeps every object whose address names per-path model state
	// (addrKey) reachable for the lifetime of the path
	pins map[*Value]struct{}
}

// addrKey names the per-path model state (m.env) attached to the object p
// points to: a bytes.Buffer's content, a sync.Map's table, a sync.Once's done
// flag, ... The key is the object's address, so the object is pinned: were it
// collected while the path is still running, Go could hand the same address
// to a later allocation of the interpreted program, which would then inherit
// the dead object's state (a fresh bytes.Buffer starting with the bytes of an
// earlier one). Whether and when that happens depends on the collector, i.e.
// on memory pressure and timing - it showed up as rare, irreproducible
// "counterexamples" of ZZ_C15_Layout.
func (m *Machine) addrKey(kind string, p *Value) string {
	if m.pins == nil {
		m.pins = map[*Value]struct{}{}
	}
	m.pins[p] = struct{}{}
	return fmt.Sprintf("%s:%p", kind, p)
}

type lockState struct {
	owner   int // thread id of the writer
	held    int // 0 free, 1 locked, for RW: -n readers
	name    string
	holders []string
}

func (m *Machine) abort(k abortKind, format string, args ...interface{}) {
	panic(pathAbort{k, fmt.Sprintf(format, args...)})
}

func (m *Machine) unsupported(format string, args ...interface{}) {
	panic(pathAbort{abUnsupported, fmt.Sprintf(format, args...)})
}

func (m *Machine) assume(t *smt.Term) {
	if t.IsTrue() || m.pcSet[t] {
		return
	}
	if m.pcSet == nil {
		m.pcSet = map[*smt.Term]bool{}
	}
	m.pcSet[t] = true
	m.pc = append(m.pc, t)
}

// slice splits the path condition into the conjuncts connected (through
// shared variables, transitively) to the goal terms and the rest. The path
// condition is satisfiable by construction, so the rest can be dropped from a
// query about the goals (independent-constraint slicing).
func (m *Machine) slice(goals []*smt.Term) (cone, rest []*smt.Term) {
	vars := map[int]bool{}
	for _, g := range goals {
		for _, v := range m.C.VarsOf(g) {
			vars[v] = true
		}
	}
	in := make([]bool, len(m.pc))
	for changed := true; changed; {
		changed = false
		for i, t := range m.pc {
			if in[i] {
				continue
			}
			vs := m.C.VarsOf(t)
			hit := false
			for _, v := range vs {
				if vars[v] {
					hit = true
					break
				}
			}
			if hit {
				in[i] = true
				changed = true
				for _, v := range vs {
					vars[v] = true
				}
			}
		}
	}
	for i, t := range m.pc {
		if in[i] {
			cone = append(cone, t)
		} else {
			rest = append(rest, t)
		}
	}
	return
}

// query answers a feasibility question (short timeout; unknown = keep).
func (m *Machine) query(extra ...*smt.Term) smt.Result {
	cone, _ := m.slice(extra)
	ts := append(cone, extra...)
	r, _ := m.E.check(ts, nil, true)
	return r
}

// prove reports whether pc implies cond, trying the harness assumptions alone
// first (a subset of the path condition suffices for a proof and is often far
// easier for the solver than the whole cone).
func (m *Machine) prove(cond *smt.Term) bool {
	neg := m.C.Not(cond)
	cone, _ := m.slice([]*smt.Term{neg})
	var as []*smt.Term
	for _, t := range cone {
		if m.isAssumption[t] {
			as = append(as, t)
		}
	}
	if len(as) < len(cone) {
		if r, _ := m.E.check(append(as, neg), nil, true); r == smt.Unsat {
			return true
		}
	}
	return false
}

// Branch decides the direction of a conditional on cond and extends the
// path condition accordingly.
func (m *Machine) Branch(cond *smt.Term) bool {
	if cond.IsTrue() {
		return true
	}
	if cond.IsFalse() {
		return false
	}
	if m.pcSet[cond] {
		return true
	}
	if m.pcSet[m.C.Not(cond)] {
		return false
	}
	e := m.E
	if !e.deadline.IsZero() && time.Now().After(e.deadline) {
		m.abort(abDone, "time limit")
	}
	if m.pos < len(e.trail) {
		d := &e.trail[m.pos]
		if d.kind != dBranch {
			panic(fmt.Sprintf("gosx: nondeterministic re-execution (expected branch at %d, have kind %d)", m.pos, d.kind))
		}
		if !d.checked && d.altOK {
			d.checked = true
		}
		if !d.checked {
			c := cond
			if d.chosen == 1 {
				c = m.C.Not(cond)
			}
			r := m.query(c)
			if r == smt.Unsat {
				d.checked = true
				m.abort(abInfeasible, "")
			}
			if r == smt.Unknown {
				e.Stats.UnknownFeas++
			}
			d.checked = true
		}
		m.pos++
		if d.chosen == 0 {
			m.assume(cond)
			return true
		}
		m.assume(m.C.Not(cond))
		return false
	}
	r := m.query(cond)
	if r == smt.Unknown {
		e.Stats.UnknownFeas++
	}
	if r != smt.Unsat {
		// decide now whether the other side is feasible, so that an
		// infeasible alternative never costs a re-execution
		r2 := m.query(m.C.Not(cond))
		if r2 == smt.Unknown {
			e.Stats.UnknownFeas++
		}
		e.trail = append(e.trail, decision{kind: dBranch, chosen: 0, n: 2, checked: true, noAlt: r2 == smt.Unsat, altOK: r2 != smt.Unsat})
		m.pos++
		m.assume(cond)
		return true
	}
	e.trail = append(e.trail, decision{kind: dBranch, chosen: 1, n: 2, checked: true, noAlt: true})
	m.pos++
	m.assume(m.C.Not(cond))
	return false
}

// Choose is an unconstrained n-way choice.
func (m *Machine) Choose(n int) int {
	if n <= 1 {
		return 0
	}
	e := m.E
	if m.pos < len(e.trail) {
		d := &e.trail[m.pos]
		if d.kind != dChoice || d.n != n {
			panic(fmt.Sprintf("gosx: nondeterministic re-execution (expected choice/%d at %d, have kind %d/%d)", n, m.pos, d.kind, d.n))
		}
		d.checked = true
		m.pos++
		return d.chosen
	}
	e.trail = append(e.trail, decision{kind: dChoice, chosen: 0, n: n, checked: true})
	m.pos++
	return 0
}

// Concretize forks over the feasible values of t (unsigned interpretation)
// and returns the value on this path. limit bounds the number of values.
func (m *Machine) Concretize(t *smt.Term, limit int) uint64 {
	if t.IsConst() {
		return t.Val
	}
	e := m.E
	var d *decision
	if m.pos < len(e.trail) {
		d = &e.trail[m.pos]
		if d.kind != dValue {
			panic("gosx: nondeterministic re-execution (expected value decision)")
		}
		if d.checked {
			m.pos++
			m.assume(m.C.Eq(t, m.C.Const(d.val, t.W)))
			return d.val
		}
	} else {
		e.trail = append(e.trail, decision{kind: dValue})
		d = &e.trail[len(e.trail)-1]
	}
	// need a new value different from the explored ones
	if len(d.explored) >= limit {
		m.unsupported("concretize: more than %d feasible values at %s", limit, m.curSite)
	}
	cone, _ := m.slice([]*smt.Term{t})
	ts := append([]*smt.Term{}, cone...)
	for _, v := range d.explored {
		ts = append(ts, m.C.Not(m.C.Eq(t, m.C.Const(v, t.W))))
	}
	r, vals := e.check(ts, []*smt.Term{t}, false)
	if r == smt.Unsat {
		d.checked = true
		d.noAlt = true
		m.abort(abInfeasible, "")
	}
	if r == smt.Unknown {
		m.unsupported("concretize: solver unknown at %s", m.curSite)
	}
	d.val = vals[0]
	d.checked = true
	m.pos++
	m.assume(m.C.Eq(t, m.C.Const(d.val, t.W)))
	return d.val
}

// backtrack advances the trail to the next unexplored alternative.
func (e *Explorer) backtrack() bool {
	for len(e.trail) > 0 {
		d := &e.trail[len(e.trail)-1]
		switch d.kind {
		case dBranch:
			if d.chosen == 0 && !d.noAlt {
				d.chosen = 1
				d.checked = false
				return true
			}
		case dChoice:
			if d.chosen+1 < d.n {
				d.chosen++
				return true
			}
		case dValue:
			if !d.noAlt {
				d.explored = append(d.explored, d.val)
				d.checked = false
				return true
			}
		}
		e.trail = e.trail[:len(e.trail)-1]
	}
	return false
}

// fresh returns a new internal (non-input) variable.
func (m *Machine) fresh(prefix string, w int) *smt.Term {
	m.nfresh++
	return m.C.Var(fmt.Sprintf("k!%s!%d", prefix, m.nfresh), w)
}

// input creates labelled input variables.
func (m *Machine) input(label, kind string, n, w int) []*smt.Term {
	label = m.uniqueLabel(sanitize(label))
	ts := make([]*smt.Term, n)
	if fx := m.E.Opt.Fixed; fx != nil {
		vals := fx[label]
		for i := range ts {
			var v uint64
			if i < len(vals) {
				v = vals[i]
			}
			if w == 0 {
				ts[i] = m.C.Bool(v != 0)
			} else {
				ts[i] = m.C.Const(v, w)
			}
		}
		m.inputs = append(m.inputs, inputRec{label: label, kind: kind, terms: ts, w: w})
		return ts
	}
	for i := range ts {
		name := fmt.Sprintf("in!%s!w%d", label, w)
		if kind == "bytes" || kind == "string" {
			name = fmt.Sprintf("in!%s!%d", label, i)
		}
		ts[i] = m.C.Var(name, w)
	}
	m.inputs = append(m.inputs, inputRec{label: label, kind: kind, terms: ts, w: w})
	return ts
}

func sanitize(s string) string {
	b := []byte(s)
	for i, c := range b {
		switch {
		case c >= 'a' && c <= 'z', c >= 'A' && c <= 'Z', c >= '0' && c <= '9', c == '_', c == '.', c == '-':
		default:
			b[i] = '_'
		}
	}
	return string(b)
}

func (m *Machine) inputVals(model map[string]uint64) []InputVal {
	out := make([]InputVal, 0, len(m.inputs))
	memo := map[*smt.Term]uint64{}
	for _, in := range m.inputs {
		iv := InputVal{Label: in.label, Kind: in.kind, W: in.w}
		for _, t := range in.terms {
			iv.Vals = append(iv.Vals, smt.Eval(t, model, memo))
		}
		out = append(out, iv)
	}
	return out
}

// model asks the solver for a model of pc ∧ extra, returning input values.
// The query is solved in two independent parts: the cone of the extra terms
// and the remaining conjuncts of the path condition.
func (m *Machine) model(extra ...*smt.Term) (smt.Result, []InputVal) {
	cone, rest := m.slice(extra)
	md := map[string]uint64{}
	solve := func(ts []*smt.Term) smt.Result {
		inPart := map[int]bool{}
		for _, t := range ts {
			for _, v := range m.C.VarsOf(t) {
				inPart[v] = true
			}
		}
		var vars []*smt.Term
		seen := map[*smt.Term]bool{}
		for _, in := range m.inputs {
			if len(in.terms) > 4096 {
				continue
			}
			for _, t := range in.terms {
				if t.Op == smt.OVar && !seen[t] && inPart[t.ID] {
					seen[t] = true
					vars = append(vars, t)
				}
			}
		}
		if len(vars) == 0 {
			r, _ := m.E.check(ts, nil, false)
			return r
		}
		r, vals := m.E.check(ts, vars, false)
		if r == smt.Sat {
			for i, v := range vars {
				md[v.Name] = vals[i]
			}
		}
		return r
	}
	r := solve(append(cone, extra...))
	if r != smt.Sat {
		return r, nil
	}
	if len(rest) > 0 {
		if r2 := solve(rest); r2 != smt.Sat {
			if r2 == smt.Unsat {
				// the path condition itself is infeasible (an earlier
				// feasibility answer was "unknown"): no real counterexample
				return smt.Unsat, nil
			}
			return smt.Unknown, nil
		}
	}
	return smt.Sat, m.inputVals(md)
}

// ---- obligations ----

// Obligation checks that cond holds on every input reaching this point.
// It reports a finding otherwise and continues under the assumption cond.
func (m *Machine) Obligation(kind, name, site string, cond *smt.Term) {
	e := m.E
	key := kind + "|" + name
	e.Stats.AssertReached[key]++
	if cond.IsTrue() {
		e.Stats.AssertProved[key]++
		return
	}
	if m.prove(cond) {
		e.Stats.AssertProved[key]++
		m.assume(cond)
		return
	}
	neg := m.C.Not(cond)
	// 1. violation outside all known regions
	var regionTerms []*smt.Term
	var regs []*Region
	for _, r := range e.Regions {
		if r.Kind != kind || (r.Name != "" && r.Name != name) || (r.Site != "" && !strings.Contains(site, r.Site)) {
			continue
		}
		rt := m.evalRegion(r)
		if rt == nil {
			continue
		}
		regs = append(regs, r)
		regionTerms = append(regionTerms, rt)
	}
	q := []*smt.Term{neg}
	for _, rt := range regionTerms {
		q = append(q, m.C.Not(rt))
	}
	res, ins := m.model(q...)
	switch res {
	case smt.Sat:
		f := &Finding{Harness: e.Harness, Kind: kind, Name: name, Site: site, Inputs: ins, Trace: m.traceTail()}
		e.addFinding(f)
	case smt.Unknown:
		e.Stats.Inconclusive = append(e.Stats.Inconclusive, fmt.Sprintf("%s %s @ %s", kind, name, site))
	case smt.Unsat:
		if len(regs) == 0 {
			e.Stats.AssertProved[key]++
		}
	}
	// 2. known regions
	for i, r := range regs {
		if _, seen := e.KnownSeen[r.ID]; seen {
			continue
		}
		res, ins := m.model(neg, regionTerms[i])
		if res == smt.Sat {
			e.KnownSeen[r.ID] = &Finding{Harness: e.Harness, Kind: kind, Name: name, Site: site, Inputs: ins, Known: r.ID, Region: r.PredStr}
		} else if res == smt.Unknown {
			e.Stats.Inconclusive = append(e.Stats.Inconclusive, fmt.Sprintf("region %s: %s %s @ %s", r.ID, kind, name, site))
		}
	}
	// continue under the assumption where some input satisfies it; where the
	// obligation fails on every input of this path, carry on without it so
	// that later obligations on the same path are still checked
	if cond.IsFalse() {
		return
	}
	if m.query(cond) == smt.Unsat {
		return
	}
	m.assume(cond)
}

func (e *Explorer) addFinding(f *Finding) {
	k := f.Key()
	if _, ok := e.Findings[k]; ok {
		return
	}
	e.Findings[k] = f
	e.Order = append(e.Order, k)
}

func (m *Machine) traceTail() []string {
	n := len(m.events)
	if n > 12 {
		return append([]string{}, m.events[n-12:]...)
	}
	return append([]string{}, m.events...)
}

// evalRegion evaluates a region predicate on the labelled inputs of this path.
func (m *Machine) evalRegion(r *Region) *smt.Term {
	fn := r.Pred
	if fn == nil {
		return m.C.True
	}
	args := make([]Value, len(fn.Params))
	for i, p := range fn.Params {
		v, ok := m.tags[p.Name()]
		if !ok {
			// labels such as "pre.reserved" are matched by pre_reserved
			for k, tv := range m.tags {
				if identOf(k) == p.Name() {
					v, ok = tv, true
					break
				}
			}
		}
		if !ok {
			return nil // input not created on this path: region does not apply
		}
		args[i] = v
	}
	// Region predicates must be straight-line or fold to terms; run on a
	// scratch machine state that shares pc (branches inside a predicate fork
	// the main exploration, so keep them branch-free: use & | not && ||).
	res := m.call(fn, nil, args)
	t, ok := res.(*smt.Term)
	if !ok || t.W != 0 {
		m.unsupported("region predicate %s must return bool", fn.Name())
	}
	return t
}

// ---- running ----

func newStats() Stats {
	return Stats{AssertReached: map[string]int{}, AssertProved: map[string]int{}, UnsupportedMsgs: map[string]int{}, Funcs: map[*ssa.Function]int{}}
}

func NewExplorer(p *Program, harness string, opt Options) *Explorer {
	if opt.Unwind == 0 {
		opt.Unwind = 64
	}
	if opt.TimeoutMs == 0 {
		opt.TimeoutMs = 20000
	}
	if opt.FeasTimeoutMs == 0 {
		opt.FeasTimeoutMs = 3000
	}
	if opt.MaxPaths == 0 {
		opt.MaxPaths = 2000000
	}
	e := &Explorer{P: p, C: smt.NewCtx(), Harness: harness, Opt: opt, Stats: newStats(),
		Findings: map[string]*Finding{}, KnownSeen: map[string]*Finding{}, cache: map[string]smt.Result{}}
	if opt.MaxSeconds > 0 {
		e.deadline = time.Now().Add(time.Duration(opt.MaxSeconds) * time.Second)
	}
	return e
}

func (e *Explorer) newMachine() *Machine {
	return &Machine{E: e, C: e.C, P: e.P, labelCnt: map[string]int{}, globals: map[*ssa.Global]*Value{},
		locks: map[*Value]*lockState{}, env: map[string]interface{}{}, tags: map[string]Value{}}
}

// Run explores all paths of fn (a niladic harness function).
// It returns false if exploration was cut short.
func (e *Explorer) Run(fn *ssa.Function) (complete bool) {
	for {
		m := e.newMachine()
		e.runPath(m, fn)
		e.Stats.Paths++
		e.Stats.Instrs += m.steps
		if e.Opt.StopOnFinding && len(e.Findings) > 0 {
			return false
		}
		if e.Opt.Stop != nil {
			if len(e.Findings) > 0 && atomic.LoadInt32(e.Opt.Stop) == 0 {
				atomic.StoreInt32(e.Opt.Stop, 1)
				e.stopAt = time.Now().Add(20 * time.Second)
			}
			if atomic.LoadInt32(e.Opt.Stop) != 0 {
				if e.stopAt.IsZero() {
					e.stopAt = time.Now().Add(20 * time.Second)
				}
				if time.Now().After(e.stopAt) {
					e.CutShort = true
					return false
				}
			}
		}
		if !e.backtrack() {
			return true
		}
		if e.Stats.Paths >= e.Opt.MaxPaths {
			e.Stats.Inconclusive = append(e.Stats.Inconclusive, fmt.Sprintf("path limit %d reached", e.Opt.MaxPaths))
			return false
		}
		if !e.deadline.IsZero() && time.Now().After(e.deadline) {
			e.Stats.Inconclusive = append(e.Stats.Inconclusive, fmt.Sprintf("time limit %ds reached after %d paths", e.Opt.MaxSeconds, e.Stats.Paths))
			return false
		}
	}
}

func (e *Explorer) runPath(m *Machine, fn *ssa.Function) {
	defer m.schedKill()
	defer func() {
		r := recover()
		if r == nil {
			return
		}
		switch r := r.(type) {
		case pathAbort:
			switch r.kind {
			case abInfeasible:
				e.Stats.Infeasible++
			case abUnwind:
				e.Stats.UnwindHits++
				if e.Opt.NonTermViolation {
					res, ins := m.model()
					if res == smt.Sat {
						e.addFinding(&Finding{Harness: e.Harness, Kind: "blocked", Name: "does not terminate within the loop bound", Site: r.msg, Inputs: ins, Trace: m.traceTail()})
						break
					}
				}
				e.Stats.Inconclusive = append(e.Stats.Inconclusive, "unwinding assertion failed: "+r.msg)
			case abUnsupported:
				e.Stats.Unsupported++
				e.Stats.UnsupportedMsgs[r.msg]++
			case abBlocked:
				e.Stats.Blocked++
				res, ins := m.model()
				if res == smt.Sat {
					e.addFinding(&Finding{Harness: e.Harness, Kind: "blocked", Name: "blocked", Site: r.msg, Inputs: ins, Trace: m.traceTail()})
				}
			case abDone:
			}
		case *GoPanic:
			// uncaught Go panic at harness top level
			m.reportPanic(r)
		default:
			panic(r)
		}
	}()
	for _, pk := range e.Opt.InitPkgs {
		if p := e.P.Prog.ImportedPackage(pk); p != nil {
			if init := p.Func("init"); init != nil {
				m.callInit(p)
			}
		} else {
			panic("init package not loaded: " + pk)
		}
	}
	m.call(fn, nil, nil)
	if len(e.Stats.Samples) < 4 {
		res, ins := m.model()
		if res == smt.Sat {
			e.Stats.Samples = append(e.Stats.Samples, map[string]interface{}{"harness": e.Harness, "path": e.Stats.Paths, "branch_decisions": m.pos, "pc_terms": len(m.pc), "inputs": ins, "verdict": "path completed, all obligations on it discharged or reported"})
		}
	}
}

// reportPanic turns an uncaught Go panic into a finding, honouring regions.
func (m *Machine) reportPanic(p *GoPanic) {
	e := m.E
	name := p.Class
	if name == "" {
		name = "explicit panic"
	}
	key := "panic|" + name
	e.Stats.AssertReached[key]++
	var q []*smt.Term
	var regs []*Region
	var regionTerms []*smt.Term
	func() {
		defer func() {
			if r := recover(); r != nil {
				if _, ok := r.(pathAbort); !ok {
					panic(r)
				}
			}
		}()
		for _, r := range e.Regions {
			if r.Kind != "panic" || (r.Name != "" && r.Name != name) || (r.Site != "" && !strings.Contains(p.Site, r.Site)) {
				continue
			}
			rt := m.evalRegion(r)
			if rt == nil {
				continue
			}
			regs = append(regs, r)
			regionTerms = append(regionTerms, rt)
			q = append(q, m.C.Not(rt))
		}
	}()
	res, ins := m.model(q...)
	if res == smt.Sat {
		e.addFinding(&Finding{Harness: e.Harness, Kind: "panic", Name: name, Site: p.Site, Inputs: ins, Trace: m.traceTail(), Extra: map[string]string{"msg": p.Msg, "stack": p.Stack}})
	} else if res == smt.Unknown {
		e.Stats.Inconclusive = append(e.Stats.Inconclusive, "panic "+name+" @ "+p.Site)
	}
	for i, r := range regs {
		if _, seen := e.KnownSeen[r.ID]; seen {
			continue
		}
		res, ins := m.model(regionTerms[i])
		if res == smt.Sat {
			e.KnownSeen[r.ID] = &Finding{Harness: e.Harness, Kind: "panic", Name: name, Site: p.Site, Inputs: ins, Known: r.ID, Region: r.PredStr}
		}
	}
}

func sortedKeys(m map[string]int) []string {
	ks := make([]string, 0, len(m))
	for k := range m {
		ks = append(ks, k)
	}
	sort.Strings(ks)
	return ks
}

func identOf(label string) string {
	b := []byte(label)
	for i, c := range b {
		if !(c >= 'a' && c <= 'z' || c >= 'A' && c <= 'Z' || c >= '0' && c <= '9' || c == '_') {
			b[i] = '_'
		}
	}
	return string(b)
}
