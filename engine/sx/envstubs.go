package sx

import (
	"encoding/json"
	"fmt"
	"go/types"
	"reflect"
	"strings"

	"gosx/smt"
)

// Environment stubs for the processor/server harnesses: Diameter transport
// (go-diameter), mongoapi, encoding/json deep copy, gin.Context, the
// notification client, id generators. Each stub's contract is listed in the
// evidence of the checks that use it (noteAssumption).

const (
	diamPkg = "github.com/fiorix/go-diameter/diam"
	smPkg   = "github.com/fiorix/go-diameter/diam/sm"
)

// deepCopy copies a value graph (fresh cells for pointers and slices).
func deepCopy(v Value, memo map[interface{}]Value) Value {
	switch x := v.(type) {
	case Struct:
		n := make(Struct, len(x))
		for i, e := range x {
			n[i] = deepCopy(e, memo)
		}
		return n
	case Array:
		n := make(Array, len(x))
		for i, e := range x {
			n[i] = deepCopy(e, memo)
		}
		return n
	case *Value:
		if x == nil {
			return x
		}
		if c, ok := memo[x]; ok {
			return c
		}
		if _, isOpaque := (*x).(*Opaque); isOpaque {
			return x // opaque library objects are shared
		}
		p := new(Value)
		memo[x] = p
		*p = deepCopy(*x, memo)
		return p
	case Slice:
		if x.A == nil {
			return x
		}
		c := &Cells{E: make([]Value, x.Len)}
		for i := 0; i < x.Len; i++ {
			c.E[i] = deepCopy(*x.at(i), memo)
		}
		return Slice{A: c, Len: x.Len, Cap: x.Len}
	case Iface:
		return Iface{T: x.T, V: deepCopy(x.V, memo)}
	case *Map:
		if x == nil {
			return x
		}
		n := &Map{KT: x.KT, VT: x.VT}
		for _, e := range x.E {
			if !e.Del {
				n.E = append(n.E, &mapEntry{K: deepCopy(e.K, memo), V: deepCopy(e.V, memo)})
			}
		}
		return n
	}
	return v
}

// mergeDecoded stores the decoded struct src (type t) into *dst member by member.
func (m *Machine) mergeDecoded(dst *Value, src Value, t types.Type, path string, omit []string) {
	st, ok := t.Underlying().(*types.Struct)
	ss, ok2 := src.(Struct)
	ds, ok3 := (*dst).(Struct)
	if !ok || !ok2 || !ok3 || len(ss) != len(ds) {
		store(dst, src)
		return
	}
	for i := 0; i < st.NumFields(); i++ {
		f := st.Field(i)
		fp := f.Name()
		if path != "" {
			fp = path + "." + fp
		}
		skip := false
		for _, o := range omit {
			if o == fp {
				skip = true
			}
		}
		if skip {
			continue
		}
		if pt, isPtr := f.Type().Underlying().(*types.Pointer); isPtr {
			sp, _ := ss[i].(*Value)
			if sp == nil {
				continue // AVP absent
			}
			if dp, _ := ds[i].(*Value); dp != nil {
				if _, isStruct := pt.Elem().Underlying().(*types.Struct); isStruct {
					m.mergeDecoded(dp, *sp, pt.Elem(), fp, omit)
					continue
				}
			}
			ds[i] = sp
			continue
		}
		store(&ds[i], ss[i])
	}
}

// jsonConcrete: json.Unmarshal of fully concrete bytes into a flat struct of
// integers, strings and booleans (real JSON text met outside the Marshal /
// Unmarshal pairs of the code under test, e.g. the claims of a token).
func (m *Machine) jsonConcrete(s Slice, dst Iface) Value {
	raw := make([]byte, s.Len)
	for i := 0; i < s.Len; i++ {
		t, ok := (*s.at(i)).(*smt.Term)
		if !ok || !t.IsConst() {
			m.unsupported("json.Unmarshal of symbolic bytes not produced by json.Marshal")
		}
		raw[i] = byte(t.Val)
	}
	var obj map[string]interface{}
	if err := json.Unmarshal(raw, &obj); err != nil {
		return m.newError("json: " + err.Error())
	}
	p, _ := dst.V.(*Value)
	st, ok := deref(dst.T).Underlying().(*types.Struct)
	if p == nil || !ok {
		m.unsupported("json.Unmarshal of concrete text into %v", dst.T)
	}
	sv := (*p).(Struct)
	for i := 0; i < st.NumFields(); i++ {
		f := st.Field(i)
		name := f.Name()
		if tag := reflect.StructTag(st.Tag(i)).Get("json"); tag != "" {
			name = strings.Split(tag, ",")[0]
		}
		v, present := obj[name]
		if !present {
			continue
		}
		switch x := v.(type) {
		case float64:
			if b, ok := f.Type().Underlying().(*types.Basic); ok && b.Info()&types.IsInteger != 0 {
				sv[i] = m.C.Const(uint64(int64(x)), intWidth(b))
				continue
			}
		case string:
			if b, ok := f.Type().Underlying().(*types.Basic); ok && b.Info()&types.IsString != 0 {
				sv[i] = x
				continue
			}
		case bool:
			if b, ok := f.Type().Underlying().(*types.Basic); ok && b.Info()&types.IsBoolean != 0 {
				sv[i] = m.C.Bool(x)
				continue
			}
		}
		m.unsupported("json.Unmarshal of concrete text: member %s of kind %T", name, v)
	}
	return Iface{}
}

// ioYield is a scheduling point at an I/O stub (database call, message
// encode, socket write) when the harness asked for it (Config "sched.ioYield").
func (m *Machine) ioYield() {
	if m.sched() != nil && m.cfg("sched.ioYield") {
		m.yield(nil, "")
	}
}

func (m *Machine) cfg(key string) bool {
	b, _ := m.env["cfg:"+key].(bool)
	return b
}

func (m *Machine) newOpaquePtr(kind string, data interface{}) *Value {
	p := new(Value)
	*p = &Opaque{Kind: kind, Data: data}
	return p
}

func opaqueOf(v Value) *Opaque {
	switch x := v.(type) {
	case *Value:
		if x == nil {
			return nil
		}
		o, _ := (*x).(*Opaque)
		return o
	case *Opaque:
		return x
	case Iface:
		return opaqueOf(x.V)
	}
	return nil
}

type diamMsg struct {
	cmd     uint64
	request bool
	body    Value
	bodyT   types.Type
	session string
	reqOf   *diamMsg // answers: the request this message answers
	answer  *diamMsg // requests: the answer written for it
	omit    []string // member paths whose AVP is absent from the message (vx.OmitAVP)
}

type diamConn struct {
	id     int
	closed bool
	server bool
	site   string
	kept   bool
}

// Conns returns the ghost connection list of this path.
func (m *Machine) conns() []*diamConn {
	c, _ := m.env["conns"].([]*diamConn)
	return c
}

type lateAnswer struct {
	name  string
	msg   Value
	conn  *diamConn
	connT types.Type
	armed bool // a timer has fired since the answer was delayed: it may arrive at the next one
}

// lateArrivals is called when a timer fires (time passes): an answer that was
// delayed beyond its request's timer has not arrived when that timer fires
// (it is then "armed"); while the code waits on any LATER timer it may arrive,
// if the connection it travels on is still open - go-diameter's reader hands
// it to the registered handler, which blocks in its channel send when no
// request is waiting (holding the mux read lock).
func (m *Machine) lateArrivals() {
	la, _ := m.env["lateAnswers"].([]*lateAnswer)
	if len(la) == 0 {
		return
	}
	var keep []*lateAnswer
	for _, a := range la {
		if !a.armed {
			a.armed = true
			keep = append(keep, a)
			continue
		}
		if a.conn != nil && a.conn.closed {
			keep = append(keep, a) // discarded at delivery time
			continue
		}
		h, ok := m.env["diamhandler:"+a.name]
		if !ok || m.Choose(2) == 0 {
			keep = append(keep, a)
			continue
		}
		cliConn := Iface{T: a.connT, V: &Opaque{Kind: "diam.Conn", Data: &diamConn{id: -4}}}
		m.call(h.(Iface).V, nil, []Value{cliConn, a.msg})
		m.env["muxReaderBlocked:"+a.name] = "the handler of a late " + a.name + " is blocked in its channel send (no request is waiting) while holding the mux read lock"
		m.events = append(m.events, "late "+a.name+" arrived while the code was waiting on a timer: handler blocked in channel send")
	}
	m.env["lateAnswers"] = keep
}

type dbRow struct {
	ueId   Value
	rg     *smt.Term
	fields map[string]Value
	order  []string
}

func (m *Machine) dbRows() []*dbRow {
	r, _ := m.env["mongo"].([]*dbRow)
	return r
}

func (m *Machine) lookupNamed(pkg, name string) types.Type {
	p := m.P.Package(pkg)
	if p == nil {
		m.unsupported("package %s not loaded", pkg)
	}
	o := p.Pkg.Scope().Lookup(name)
	if o == nil {
		m.unsupported("%s.%s not found", pkg, name)
	}
	return o.Type()
}

func (m *Machine) rgTerm(v Value) *smt.Term {
	if itf, ok := v.(Iface); ok {
		v = itf.V
	}
	t, ok := v.(*smt.Term)
	if !ok {
		m.unsupported("mongo filter ratingGroup of type %T", v)
	}
	if t.W < 64 {
		return m.C.Zext(t, 64)
	}
	return t
}

func (m *Machine) dbFind(fr *frame, filter *Map) *dbRow {
	var ue Value
	var rg *smt.Term
	for _, e := range filter.E {
		k, _ := concreteStr(e.K)
		switch k {
		case "ueId":
			ue = e.V.(Iface).V
		case "ratingGroup":
			rg = m.rgTerm(e.V)
		}
	}
	for _, r := range m.dbRows() {
		c := m.C.True
		if ue != nil {
			c = m.C.And(c, m.strEq(fr, r.ueId, ue))
		}
		if rg != nil {
			c = m.C.And(c, m.C.Eq(r.rg, rg))
		}
		if m.Branch(c) {
			return r
		}
	}
	return nil
}

type ginState struct {
	status  *smt.Term
	headers map[string]Value
	body    Value
	params  map[string]Value
	aborted bool
	writes  int
}

func (m *Machine) gin(p *Value) *ginState {
	key := m.addrKey("gin", p)
	if g, ok := m.env[key].(*ginState); ok {
		return g
	}
	g := &ginState{headers: map[string]Value{}, params: map[string]Value{}}
	m.env[key] = g
	return g
}

func ptrArg(v Value) *Value {
	switch x := v.(type) {
	case *Value:
		return x
	case Iface:
		p, _ := x.V.(*Value)
		return p
	}
	return nil
}

func init() {
	I := intrinsics
	stringT := types.Typ[types.String]

	// ---- id generator ----
	I["(*github.com/free5gc/util/idgenerator.IDGenerator).Allocate"] = func(m *Machine, fr *frame, args []Value) Value {
		m.noteAssumption("stub idgenerator.Allocate: returns an arbitrary int64 and no error")
		return Tuple{m.fresh("idgen", 64), Iface{}}
	}
	I["github.com/free5gc/util/idgenerator.NewGenerator"] = func(m *Machine, fr *frame, args []Value) Value {
		return m.newOpaquePtr("idgenerator", nil)
	}
	I["github.com/google/uuid.New"] = func(m *Machine, fr *frame, args []Value) Value {
		a := make(Array, 16)
		for i := range a {
			a[i] = m.b8(byte(i + 1))
		}
		return a
	}
	I["(github.com/google/uuid.UUID).String"] = func(m *Machine, fr *frame, args []Value) Value {
		return "00010203-0405-0607-0809-0a0b0c0d0e0f"
	}

	// ---- go-diameter ----
	I[smPkg+".New"] = func(m *Machine, fr *frame, args []Value) Value { return m.newOpaquePtr("sm.StateMachine", nil) }
	I[diamPkg+".NewAVP"] = func(m *Machine, fr *frame, args []Value) Value { return m.newOpaquePtr("diam.AVP", nil) }
	I["(*"+smPkg+".StateMachine).Handle"] = func(m *Machine, fr *frame, args []Value) Value {
		cmd := mustStr(args[1])
		if site, blocked := m.env["muxReaderBlocked:"+cmd].(string); blocked {
			// go-diameter's ServeMux.ServeDIAM holds the mux read lock while the
			// handler runs; a handler stuck in a channel send keeps it for ever
			// and Handle (write lock) can never proceed
			m.abort(abBlocked, "mux.Handle(%q) blocks for ever: %s", cmd, site)
		}
		m.env["diamhandler:"+cmd] = args[2]
		m.events = append(m.events, "mux.Handle "+cmd)
		if h, ok := m.env["muxHandleHook"].(func(*frame, string)); ok {
			h(fr, cmd)
		}
		return nil
	}
	I["(*"+smPkg+".StateMachine).HandleFunc"] = func(m *Machine, fr *frame, args []Value) Value { return nil }
	I["(*"+smPkg+".StateMachine).Settings"] = func(m *Machine, fr *frame, args []Value) Value {
		t := m.P.Package(smPkg).Pkg.Scope().Lookup("Settings").Type()
		p := new(Value)
		*p = m.zero(t)
		return p
	}
	I["(*"+smPkg+".StateMachine).ErrorReports"] = func(m *Machine, fr *frame, args []Value) Value { return &Chan{Name: "errorReports"} }
	dial := func(m *Machine, fr *frame, args []Value) Value {
		m.noteAssumption("stub sm.Client.Dial*: returns a ghost connection (or, where the harness allows it, an error); go-diameter's handshake, reader and watchdog tasks are not encoded")
		if m.cfg("diam.dialMayFail") && m.Choose(2) == 1 {
			m.events = append(m.events, "dial failed")
			return Tuple{Iface{}, m.newError("dial failed")}
		}
		cs := m.conns()
		c := &diamConn{id: len(cs), site: fr.site()}
		m.env["conns"] = append(cs, c)
		m.events = append(m.events, fmt.Sprintf("dial ok -> conn%d", c.id))
		return Tuple{Iface{T: diamConnType, V: &Opaque{Kind: "diam.Conn", Data: c}}, Iface{}}
	}
	I["(*"+smPkg+".Client).DialNetworkTLS"] = dial
	I["(*"+smPkg+".Client).DialNetwork"] = dial
	I["(*"+smPkg+".Client).Dial"] = dial
	I["(*"+smPkg+".Client).DialTLS"] = dial
	opaqueMethods["diam.Conn.Context"] = func(m *Machine, fr *frame, args []Value) Value {
		return Iface{T: types.Typ[types.Int], V: &Opaque{Kind: "context", Data: args[0]}}
	}
	opaqueMethods["diam.Conn.RemoteAddr"] = func(m *Machine, fr *frame, args []Value) Value { return Iface{} }
	opaqueMethods["diam.Conn.LocalAddr"] = func(m *Machine, fr *frame, args []Value) Value { return Iface{} }
	opaqueMethods["diam.Conn.Close"] = func(m *Machine, fr *frame, args []Value) Value {
		c := args[0].(*Opaque).Data.(*diamConn)
		c.closed = true
		m.events = append(m.events, fmt.Sprintf("conn%d closed", c.id))
		return nil
	}
	I[smPkg+"/smpeer.FromContext"] = func(m *Machine, fr *frame, args []Value) Value {
		mt := m.lookupNamed(smPkg+"/smpeer", "Metadata")
		s := m.zero(mt).(Struct)
		st := mt.Underlying().(*types.Struct)
		for i := 0; i < st.NumFields(); i++ {
			switch st.Field(i).Name() {
			case "OriginHost":
				s[i] = "peer-host"
			case "OriginRealm":
				s[i] = "peer-realm"
			}
		}
		p := new(Value)
		*p = s
		ok := true
		if m.cfg("diam.metaMayMiss") && m.Choose(2) == 1 {
			ok = false
		}
		return Tuple{p, m.C.Bool(ok)}
	}
	I[diamPkg+".NewRequest"] = func(m *Machine, fr *frame, args []Value) Value {
		cmd := args[0].(*smt.Term)
		return m.newOpaquePtr("diam.Message", &diamMsg{cmd: cmd.Val, request: true})
	}
	I["(*"+diamPkg+".Message).Marshal"] = func(m *Machine, fr *frame, args []Value) Value {
		m.noteAssumption("stub diam.Message.Marshal/Unmarshal: the message carries a deep copy of the Go struct (field fidelity of the real AVP codec is the subject of C17, assumed here)")
		msg := opaqueOf(args[0]).Data.(*diamMsg)
		src := args[1].(Iface)
		m.ioYield()
		if m.cfg("diam.marshalMayFail") && m.Choose(2) == 1 {
			return m.newError("marshal failed")
		}
		p, ok := src.V.(*Value)
		if !ok || p == nil {
			return m.newError("marshal: not a pointer")
		}
		msg.body = deepCopy(*p, map[interface{}]Value{})
		msg.bodyT = deref(src.T)
		return Iface{}
	}
	I["(*"+diamPkg+".Message).Unmarshal"] = func(m *Machine, fr *frame, args []Value) Value {
		msg := opaqueOf(args[0]).Data.(*diamMsg)
		dst := args[1].(Iface)
		p := dst.V.(*Value)
		if msg.body == nil {
			return m.newError("unmarshal: empty message")
		}
		if m.cfg("diam.unmarshalMayFail") && m.Choose(2) == 1 {
			// e.g. an answer under another application id: AVP lookup fails
			m.events = append(m.events, "unmarshal failed")
			return m.newError("unmarshal failed")
		}
		if !types.Identical(deref(dst.T), msg.bodyT) {
			// different struct: go-diameter matches AVPs by name; not modelled
			m.unsupported("diam Unmarshal into %v of a message marshalled from %v", dst.T, msg.bodyT)
		}
		// go-diameter writes only the members whose AVP is present: an absent
		// grouped AVP (nil pointer on the sender's side) or an AVP the sender
		// left out (vx.OmitAVP) leaves the destination member as it is, and a
		// destination pointer that is already set is reused
		m.mergeDecoded(p, deepCopy(msg.body, map[interface{}]Value{}), msg.bodyT, "", msg.omit)
		return Iface{}
	}
	I["(*"+diamPkg+".Message).Answer"] = func(m *Machine, fr *frame, args []Value) Value {
		msg := opaqueOf(args[0]).Data.(*diamMsg)
		return m.newOpaquePtr("diam.Message", &diamMsg{cmd: msg.cmd, request: false, reqOf: msg})
	}
	I["(*"+diamPkg+".Message).NewAVP"] = func(m *Machine, fr *frame, args []Value) Value {
		m.noteAssumption("stub diam.Message.NewAVP: single AVPs added to a message by hand are not modelled (only the struct carried by Marshal is)")
		return Tuple{(*Value)(nil), Iface{}}
	}
	I["(*"+diamPkg+".Message).String"] = func(m *Machine, fr *frame, args []Value) Value { return "<diam.Message>" }
	I["(*"+diamPkg+".Message).WriteTo"] = func(m *Machine, fr *frame, args []Value) Value {
		m.noteAssumption("stub diam.Message.WriteTo: hands the message to the peer's real handler closure synchronously; answers are queued FIFO on the subscriber channel")
		msg := opaqueOf(args[0]).Data.(*diamMsg)
		connI := args[1].(Iface)
		m.ioYield()
		if m.cfg("diam.writeMayFail") && m.Choose(2) == 1 {
			return Tuple{m.i64(0), m.newError("write failed")}
		}
		if msg.request {
			h, ok := m.env["reg:diam.server."+fmt.Sprint(msg.cmd)]
			if !ok {
				// a command neither server of the repository handles (the base
				// protocol's state machine does not answer it either): the
				// request is delivered and stays unanswered
				m.noteAssumption(fmt.Sprintf("a Diameter request with command %d, which neither the rating nor the account server handles, is delivered and never answered", msg.cmd))
				m.events = append(m.events, fmt.Sprintf("-> peer cmd %d: unanswered", msg.cmd))
				return Tuple{m.i64(1), Iface{}}
			}
			if m.cfg("diam.requestMayBeLost") && m.Choose(2) == 1 {
				m.events = append(m.events, "request lost")
				return Tuple{m.i64(1), Iface{}}
			}
			m.env["curClientConn"] = opaqueOf(connI).Data
			srvConn := Iface{T: connI.T, V: &Opaque{Kind: "diam.Conn", Data: &diamConn{id: -1, server: true}}}
			m.events = append(m.events, fmt.Sprintf("-> server cmd %d", msg.cmd))
			func() {
				defer func() {
					if r := recover(); r != nil {
						gp, ok := r.(*GoPanic)
						if !ok {
							panic(r)
						}
						// go-diameter recovers handler panics; the request stays unanswered
						m.env["serverPanic"] = gp
						m.events = append(m.events, "server handler panicked: "+gp.Class+" @ "+gp.Site)
					}
				}()
				hv := h.(Iface).V
				m.call(hv, fr, []Value{srvConn, args[0]})
			}()
			return Tuple{m.i64(1), Iface{}}
		}
		// answer: deliver to the client's handler for this command
		name := map[uint64]string{272: "CCA", 111: "SUA"}[msg.cmd]
		m.env["answersWritten"] = asInt(m.env["answersWritten"]) + 1
		m.env["lastAnswer"] = msg
		if msg.reqOf != nil {
			msg.reqOf.answer = msg
		}
		if m.cfg("diam.answerMayBeLost") && m.Choose(2) == 1 {
			m.events = append(m.events, "answer lost")
			return Tuple{m.i64(1), Iface{}}
		}
		if m.cfg("diam.answerMayBeLate") && m.Choose(2) == 1 {
			// the answer is in flight longer than the client's 5 s timer: it is
			// delivered later (vx.DeliverLateAnswers) on the connection the
			// request went out on, if that connection is still open then
			cc, _ := m.env["curClientConn"].(*diamConn)
			la, _ := m.env["lateAnswers"].([]*lateAnswer)
			m.env["lateAnswers"] = append(la, &lateAnswer{name: name, msg: args[0], conn: cc, connT: connI.T})
			m.events = append(m.events, "answer delayed beyond the client timeout")
			return Tuple{m.i64(1), Iface{}}
		}
		h, ok := m.env["diamhandler:"+name]
		if !ok {
			m.events = append(m.events, "answer dropped: no handler for "+name)
			return Tuple{m.i64(1), Iface{}}
		}
		cliConn := Iface{T: connI.T, V: &Opaque{Kind: "diam.Conn", Data: &diamConn{id: -2}}}
		m.call(h.(Iface).V, fr, []Value{cliConn, args[0]})
		return Tuple{m.i64(1), Iface{}}
	}

	// ---- mongoapi ----
	mongo := "github.com/free5gc/util/mongoapi."
	I[mongo+"RestfulAPIGetOne"] = func(m *Machine, fr *frame, args []Value) Value {
		m.noteAssumption("stub mongoapi.RestfulAPIGetOne/PutOne: an in-memory table of (ueId, ratingGroup) rows set up by the harness")
		filter := args[1].(*Map)
		m.ioYield()
		r := m.dbFind(fr, filter)
		if r == nil {
			return Tuple{(*Map)(nil), Iface{}}
		}
		out := &Map{KT: stringT, VT: types.NewInterfaceType(nil, nil)}
		for _, k := range r.order {
			out.E = append(out.E, &mapEntry{K: k, V: Iface{T: stringT, V: r.fields[k]}})
		}
		return Tuple{out, Iface{}}
	}
	I[mongo+"RestfulAPIPutOne"] = func(m *Machine, fr *frame, args []Value) Value {
		filter := args[1].(*Map)
		put := args[2].(*Map)
		r := m.dbFind(fr, filter)
		if r == nil {
			return Tuple{m.C.False, Iface{}} // insert of a document without key fields: not visible to later lookups by key
		}
		for _, e := range put.E {
			k, _ := concreteStr(e.K)
			if _, ok := r.fields[k]; !ok {
				r.order = append(r.order, k)
			}
			r.fields[k] = e.V.(Iface).V
		}
		m.env["dbWrites"] = asInt(m.env["dbWrites"]) + 1
		return Tuple{m.C.True, Iface{}}
	}
	I[mongo+"SetMongoDB"] = func(m *Machine, fr *frame, args []Value) Value { return Iface{} }

	// ---- encoding/json as deep copy ----
	I["encoding/json.Marshal"] = func(m *Machine, fr *frame, args []Value) Value {
		m.noteAssumption("stub encoding/json Marshal->Unmarshal: deep copy of the value (JSON round trip of the CHFRecord types assumed to be the identity)")
		src := args[0].(Iface)
		o := &Opaque{Kind: "json", Data: Iface{T: src.T, V: deepCopy(src.V, map[interface{}]Value{})}}
		return Tuple{Slice{A: &Cells{E: []Value{o}}, Len: 1, Cap: 1}, Iface{}}
	}
	I["encoding/json.Unmarshal"] = func(m *Machine, fr *frame, args []Value) Value {
		s := args[0].(Slice)
		dst := args[1].(Iface)
		if s.Len != 1 {
			return m.jsonConcrete(s, dst)
		}
		o, ok := (*s.at(0)).(*Opaque)
		if !ok || o.Kind != "json" {
			return m.jsonConcrete(s, dst)
		}
		stored := o.Data.(Iface)
		p := dst.V.(*Value)
		if p == nil {
			return m.newError("json: Unmarshal(nil)")
		}
		dt := deref(dst.T)
		cp := deepCopy(stored.V, map[interface{}]Value{})
		switch {
		case types.Identical(dt, stored.T):
			store(p, cp)
		case isPtrTo(stored.T, dt):
			// Marshal(*T) then Unmarshal(&T)
			sp := cp.(*Value)
			if sp != nil {
				store(p, *sp)
			}
		default:
			m.unsupported("json.Unmarshal: %v into %v", stored.T, dst.T)
		}
		return Iface{}
	}

	// ---- gin.Context ----
	ginp := "(*github.com/gin-gonic/gin.Context)."
	I[ginp+"JSON"] = func(m *Machine, fr *frame, args []Value) Value {
		g := m.gin(args[0].(*Value))
		g.status = args[1].(*smt.Term)
		g.body = args[2]
		g.writes++
		return nil
	}
	I[ginp+"String"] = func(m *Machine, fr *frame, args []Value) Value {
		g := m.gin(args[0].(*Value))
		g.status = args[1].(*smt.Term)
		g.body = Iface{T: stringT, V: args[2]}
		g.writes++
		return nil
	}
	I[ginp+"Status"] = func(m *Machine, fr *frame, args []Value) Value {
		g := m.gin(args[0].(*Value))
		g.status = args[1].(*smt.Term)
		g.writes++
		return nil
	}
	I[ginp+"AbortWithStatusJSON"] = func(m *Machine, fr *frame, args []Value) Value {
		g := m.gin(args[0].(*Value))
		g.status = args[1].(*smt.Term)
		g.body = args[2]
		g.aborted = true
		g.writes++
		return nil
	}
	I[ginp+"AbortWithStatus"] = func(m *Machine, fr *frame, args []Value) Value {
		g := m.gin(args[0].(*Value))
		g.status = args[1].(*smt.Term)
		g.aborted = true
		g.writes++
		return nil
	}
	I[ginp+"Abort"] = func(m *Machine, fr *frame, args []Value) Value {
		m.gin(args[0].(*Value)).aborted = true
		return nil
	}
	I[ginp+"IsAborted"] = func(m *Machine, fr *frame, args []Value) Value {
		return m.C.Bool(m.gin(args[0].(*Value)).aborted)
	}
	I[ginp+"Next"] = func(m *Machine, fr *frame, args []Value) Value { return nil }
	I[ginp+"Header"] = func(m *Machine, fr *frame, args []Value) Value {
		k, _ := concreteStr(args[1])
		m.gin(args[0].(*Value)).headers[k] = args[2]
		return nil
	}
	I[ginp+"Param"] = func(m *Machine, fr *frame, args []Value) Value {
		k, _ := concreteStr(args[1])
		if v, ok := m.gin(args[0].(*Value)).params[k]; ok {
			return v
		}
		return ""
	}
	I[ginp+"GetHeader"] = func(m *Machine, fr *frame, args []Value) Value {
		k, _ := concreteStr(args[1])
		if v, ok := m.gin(args[0].(*Value)).params["hdr:"+k]; ok {
			return v
		}
		return ""
	}
	I[ginp+"GetRawData"] = func(m *Machine, fr *frame, args []Value) Value {
		// a request body set by the harness (vx.HTTPSetBody) travels as the
		// same opaque "json" blob that the json.Marshal stub produces
		if b, ok := m.gin(args[0].(*Value)).params["reqbody"].(Iface); ok {
			o := &Opaque{Kind: "json", Data: Iface{T: b.T, V: deepCopy(b.V, map[interface{}]Value{})}}
			return Tuple{Slice{A: &Cells{E: []Value{o}}, Len: 1, Cap: 1}, Iface{}}
		}
		return Tuple{Slice{A: &Cells{}, Len: 0, Cap: 0}, Iface{}}
	}
	// openapi.Deserialize(v, body, contentType): JSON decoding of a body that
	// came from vx.HTTPSetBody (deep copy, as json.Unmarshal of a Marshal blob)
	I["github.com/free5gc/openapi.Deserialize"] = func(m *Machine, fr *frame, args []Value) Value {
		s, ok := args[1].(Slice)
		if ok && s.Len == 1 {
			if o, isO := (*s.at(0)).(*Opaque); isO && o.Kind == "json" {
				return I["encoding/json.Unmarshal"](m, fr, []Value{args[1], args[0]})
			}
		}
		return m.newError("openapi.Deserialize: body is not a JSON document set by the harness")
	}

	// ---- notification client ----
	I["github.com/free5gc/chf/internal/util.GetNchfChargingNotificationCallbackClient"] = func(m *Machine, fr *frame, args []Value) Value {
		t := m.lookupNamed("github.com/free5gc/openapi/chf/ConvergedCharging", "APIClient")
		p := new(Value)
		*p = m.zero(t)
		return p
	}
	I["(*github.com/free5gc/openapi/chf/ConvergedCharging.DefaultApiService).PostChargingNotification"] = func(m *Machine, fr *frame, args []Value) Value {
		m.noteAssumption("stub PostChargingNotification: records (uri, request) and reports success or, where the harness allows, an error")
		n, _ := m.env["notifications"].([]Value)
		m.env["notifications"] = append(n, Tuple{args[2], args[3]})
		return Tuple{(*Value)(nil), Iface{}}
	}
}

var diamConnType = types.NewNamed(types.NewTypeName(0, nil, "gosx.diamConn", nil), types.NewStruct(nil, nil), nil)

func isPtrTo(pt, t types.Type) bool {
	p, ok := pt.Underlying().(*types.Pointer)
	return ok && types.Identical(p.Elem(), t)
}

func asInt(v interface{}) int {
	i, _ := v.(int)
	return i
}

func init() {
	p := vxPkg + "."
	// DeliverLateAnswers delivers the answers that were delayed beyond the
	// client timeout. An answer whose connection has been closed meanwhile is
	// discarded (nobody reads that socket any more). Otherwise go-diameter's
	// reader hands it to the registered handler, which sends it on the
	// subscriber's unbuffered channel: with no request waiting, that handler
	// blocks while holding the mux read lock; the message stays pending and is
	// what the next receive on the channel obtains.
	intrinsics[p+"DeliverLateAnswers"] = func(m *Machine, fr *frame, args []Value) Value {
		la, _ := m.env["lateAnswers"].([]*lateAnswer)
		m.env["lateAnswers"] = nil
		n := 0
		for _, a := range la {
			if a.conn != nil && a.conn.closed {
				m.events = append(m.events, "late answer discarded: connection closed")
				continue
			}
			h, ok := m.env["diamhandler:"+a.name]
			if !ok {
				continue
			}
			n++
			cliConn := Iface{T: a.connT, V: &Opaque{Kind: "diam.Conn", Data: &diamConn{id: -4}}}
			m.call(h.(Iface).V, fr, []Value{cliConn, a.msg})
			m.env["muxReaderBlocked:"+a.name] = "the handler of a late " + a.name + " is blocked in its channel send (no request is waiting) while holding the mux read lock"
			m.events = append(m.events, "late "+a.name+" delivered: handler blocked in channel send")
		}
		return m.i64(int64(n))
	}
}
