// Package sx is a symbolic executor for Go programs in go/ssa form.
//
// The overall shape (instruction dispatch, calls, defers, panics) follows
// golang.org/x/tools/go/ssa/interp (BSD licence, The Go Authors); the value
// representation is symbolic: integers and booleans are SMT terms.
package sx

import (
	"fmt"
	"go/types"

	"golang.org/x/tools/go/ssa"

	"gosx/smt"
)

// Value is any engine value. Dynamic types:
//
//	*smt.Term       integers (W = bit width) and booleans (W = 0)
//	Float           floating point (concrete or havoc)
//	string          concrete string
//	*Str            string with symbolic bytes / decimal-text abstraction
//	Slice           slices
//	*Value          pointers (nil pointer = (*Value)(nil))
//	Struct, Array   aggregates (copied on load/store)
//	*Map            maps (nil map = (*Map)(nil))
//	Iface           interface values
//	*ssa.Function, *Closure, *ssa.Builtin, *Native   functions
//	Tuple           multiple results
//	*Chan           channels
//	RValue, RType   reflect.Value, reflect.Type
//	*Opaque         opaque library objects
type Value interface{}

type Float struct {
	OK bool
	F  float64
	W  int // 32 or 64
	// Pow10Of != nil: the (unknown) value is math.Pow10 of this int64 term
	Pow10Of *smt.Term
	// Int != nil: the value is the float64 nearest (round-half-even) to this
	// signed 64-bit integer term
	Int *smt.Term
}

// Str is a string whose bytes are terms. If Dec != nil the string is the
// canonical decimal text of the int64 term Dec and B is unused.
type Str struct {
	B   []*smt.Term
	Dec *smt.Term
}

type Cells struct {
	E []Value
}

type Slice struct {
	A        *Cells // nil for nil slice
	Off      int
	Len, Cap int
}

type Struct []Value
type Array []Value
type Tuple []Value

type Iface struct {
	T types.Type // nil for nil interface
	V Value
}

type Closure struct {
	Fn  *ssa.Function
	Env []Value
}

type mapEntry struct {
	K, V Value
	Del  bool
}

type Map struct {
	KT, VT types.Type
	E      []*mapEntry
}

type Chan struct {
	Buf   []Value
	Timer bool
	// timers: Expired = created with a duration <= 0 (ready at once);
	// Deadline = clock at creation + duration
	Expired  bool
	Deadline *smt.Term
	Closed   bool
	Name     string
}

// Opaque is a library object the engine does not look into.
type Opaque struct {
	Kind string
	Data interface{}
}

type RType struct{ T types.Type }

// RValue models reflect.Value.
type RValue struct {
	T    types.Type // nil => invalid (zero Value)
	Addr *Value     // non-nil if addressable: the cell holding the value
	V    Value      // the value when not addressable
	// CanSet is true when obtained through a pointer's Elem
	Settable bool
}

func (r RValue) get() Value {
	if r.Addr != nil {
		return *r.Addr
	}
	return r.V
}

type Native struct {
	Name string
	Fn   func(m *Machine, fr *frame, args []Value) Value
}

func isNilPtr(v Value) bool {
	p, ok := v.(*Value)
	return ok && p == nil
}

func (m *Machine) i64(v int64) *smt.Term  { return m.C.Const(uint64(v), 64) }
func (m *Machine) b8(v byte) *smt.Term    { return m.C.Const(uint64(v), 8) }
func (m *Machine) boolT(b bool) *smt.Term { return m.C.Bool(b) }

// zero returns the zero value of type t.
func (m *Machine) zero(t types.Type) Value {
	if isReflectValue(t) {
		return RValue{}
	}
	switch t := t.(type) {
	case *types.Basic:
		if t.Kind() == types.UntypedNil {
			panic("untyped nil has no zero value")
		}
		if t.Info()&types.IsUntyped != 0 {
			t = types.Default(t).(*types.Basic)
		}
		switch {
		case t.Info()&types.IsBoolean != 0:
			return m.C.False
		case t.Info()&types.IsInteger != 0:
			return m.C.Const(0, intWidth(t))
		case t.Info()&types.IsFloat != 0:
			w := 64
			if t.Kind() == types.Float32 {
				w = 32
			}
			return Float{OK: true, W: w}
		case t.Info()&types.IsString != 0:
			return ""
		case t.Kind() == types.UnsafePointer:
			return (*Value)(nil)
		case t.Info()&types.IsComplex != 0:
			return &Opaque{Kind: "complex"}
		}
	case *types.Pointer:
		return (*Value)(nil)
	case *types.Array:
		a := make(Array, t.Len())
		for i := range a {
			a[i] = m.zero(t.Elem())
		}
		return a
	case *types.Named, *types.Alias:
		return m.zero(t.Underlying())
	case *types.Interface:
		return Iface{}
	case *types.Slice:
		return Slice{}
	case *types.Struct:
		s := make(Struct, t.NumFields())
		for i := range s {
			s[i] = m.zero(t.Field(i).Type())
		}
		return s
	case *types.Tuple:
		if t.Len() == 1 {
			return m.zero(t.At(0).Type())
		}
		s := make(Tuple, t.Len())
		for i := range s {
			s[i] = m.zero(t.At(i).Type())
		}
		return s
	case *types.Chan:
		return (*Chan)(nil)
	case *types.Map:
		return (*Map)(nil)
	case *types.Signature:
		return (*ssa.Function)(nil)
	case *types.TypeParam:
		panic("zero of type parameter")
	}
	panic(fmt.Sprintf("zero: unexpected type %T %v", t, t))
}

func isReflectValue(t types.Type) bool {
	if n, ok := t.(*types.Named); ok {
		o := n.Obj()
		return o.Name() == "Value" && o.Pkg() != nil && o.Pkg().Path() == "reflect"
	}
	return false
}

func intWidth(b *types.Basic) int {
	switch b.Kind() {
	case types.Int8, types.Uint8:
		return 8
	case types.Int16, types.Uint16:
		return 16
	case types.Int32, types.Uint32:
		return 32
	case types.Int, types.Uint, types.Int64, types.Uint64, types.Uintptr, types.UntypedInt, types.UntypedRune:
		return 64
	}
	panic(fmt.Sprintf("intWidth: %v", b))
}

func isSigned(t types.Type) bool {
	b, ok := t.Underlying().(*types.Basic)
	if !ok {
		return false
	}
	return b.Info()&types.IsInteger != 0 && b.Info()&types.IsUnsigned == 0
}

func isInteger(t types.Type) bool {
	b, ok := t.Underlying().(*types.Basic)
	return ok && b.Info()&types.IsInteger != 0
}

// copyVal makes a copy of aggregates (value semantics).
func copyVal(v Value) Value {
	switch v := v.(type) {
	case Struct:
		n := make(Struct, len(v))
		for i, x := range v {
			n[i] = copyVal(x)
		}
		return n
	case Array:
		n := make(Array, len(v))
		for i, x := range v {
			n[i] = copyVal(x)
		}
		return n
	}
	return v
}

// store writes v into *addr in place (field pointers stay valid).
func store(addr *Value, v Value) {
	switch rhs := v.(type) {
	case Struct:
		if lhs, ok := (*addr).(Struct); ok && len(lhs) == len(rhs) {
			for i := range lhs {
				store(&lhs[i], rhs[i])
			}
			return
		}
		*addr = copyVal(v)
	case Array:
		if lhs, ok := (*addr).(Array); ok && len(lhs) == len(rhs) {
			for i := range lhs {
				store(&lhs[i], rhs[i])
			}
			return
		}
		*addr = copyVal(v)
	default:
		*addr = v
	}
}

func (s Slice) at(i int) *Value { return &s.A.E[s.Off+i] }

func (m *Machine) newCells(n int, zero func() Value) *Cells {
	c := &Cells{E: make([]Value, n)}
	for i := range c.E {
		c.E[i] = zero()
	}
	return c
}
