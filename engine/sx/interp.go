package sx

import (
	"fmt"
	"go/constant"
	"go/token"
	"go/types"
	"strings"

	"golang.org/x/tools/go/ssa"

	"gosx/smt"
)

type deferred struct {
	fn    Value
	args  []Value
	instr *ssa.Defer
	tail  *deferred
}

type frame struct {
	m         *Machine
	caller    *frame
	fn        *ssa.Function
	block     *ssa.BasicBlock
	prevBlock *ssa.BasicBlock
	env       map[ssa.Value]Value
	locals    []Value
	defers    *deferred
	result    Value
	panicking bool
	panicVal  interface{}
	visits    map[ssa.Instruction]int
	curPos    token.Pos
}

const maxDepth = 400
const maxSteps = 40_000_000

func (fr *frame) get(key ssa.Value) Value {
	switch key := key.(type) {
	case nil:
		return nil
	case *ssa.Function, *ssa.Builtin:
		return key
	case *ssa.Const:
		return fr.m.constValue(key)
	case *ssa.Global:
		return fr.m.global(key)
	}
	if r, ok := fr.env[key]; ok {
		return r
	}
	panic(fmt.Sprintf("get: no value for %T: %v in %s", key, key.Name(), fr.fn))
}

func (m *Machine) global(g *ssa.Global) *Value {
	if p, ok := m.globals[g]; ok {
		return p
	}
	m.lazyInit(g.Pkg)
	if p, ok := m.globals[g]; ok {
		return p
	}
	p := new(Value)
	*p = m.zero(deref(g.Type()))
	m.globals[g] = p
	return p
}

// standard-library packages whose package-level tables are needed when their
// code is interpreted (pure data initialisers)
var lazyInitStd = map[string]bool{
	"strings": true, "bytes": true, "unicode": true, "unicode/utf8": true, "strconv": true,
	"encoding/base64": true, "encoding/hex": true, "encoding/binary": true, "sort": true, "path": true,
}

// lazyInit runs the package-level initialisers of a package of the code under
// test (module github.com/free5gc/chf, logger excluded) the first time one
// of its package-level variables is touched on a path, so that tables and
// defaults declared as initialised variables hold their real values.
func (m *Machine) lazyInit(p *ssa.Package) {
	if p == nil || p.Pkg == nil {
		return
	}
	path := p.Pkg.Path()
	if !(strings.HasPrefix(path, "github.com/free5gc/chf/") && !strings.HasSuffix(path, "/internal/logger")) && !lazyInitStd[path] {
		return
	}
	if m.inited == nil {
		m.inited = map[*ssa.Package]bool{}
	}
	if m.inited[p] {
		return
	}
	m.inited[p] = true
	if p.Func("init") == nil {
		return
	}
	saved := m.env["initOnly"]
	depth := m.depth
	defer func() {
		m.depth = depth
		if saved != nil {
			m.env["initOnly"] = saved
		} else {
			delete(m.env, "initOnly")
		}
		if r := recover(); r != nil {
			if a, ok := r.(pathAbort); ok && a.kind == abUnsupported {
				m.noteAssumption("package initialisers of " + path + " could not be executed completely (" + a.msg + "): the remaining package variables keep their zero values")
				return
			}
			panic(r)
		}
	}()
	m.callInit(p)
}

func deref(t types.Type) types.Type {
	if p, ok := t.Underlying().(*types.Pointer); ok {
		return p.Elem()
	}
	panic(fmt.Sprintf("deref: not a pointer: %v", t))
}

func (m *Machine) constValue(c *ssa.Const) Value {
	if c.Value == nil {
		return m.zero(c.Type())
	}
	t := c.Type()
	if b, ok := t.Underlying().(*types.Basic); ok {
		switch {
		case b.Info()&types.IsBoolean != 0:
			return m.C.Bool(constant.BoolVal(c.Value))
		case b.Info()&types.IsInteger != 0:
			w := intWidth(b)
			if b.Info()&types.IsUnsigned != 0 {
				return m.C.Const(c.Uint64(), w)
			}
			return m.C.Const(uint64(c.Int64()), w)
		case b.Info()&types.IsFloat != 0:
			w := 64
			if b.Kind() == types.Float32 {
				w = 32
			}
			return Float{OK: true, F: c.Float64(), W: w}
		case b.Info()&types.IsString != 0:
			if c.Value.Kind() == constant.String {
				return constant.StringVal(c.Value)
			}
			return string(rune(c.Int64()))
		case b.Info()&types.IsComplex != 0:
			return &Opaque{Kind: "complex"}
		}
	}
	panic(fmt.Sprintf("constValue: unexpected constant %v of type %v", c, t))
}

// ---------- panics ----------

func (fr *frame) site() string {
	return fr.siteAt(fr.curPos)
}

func (fr *frame) siteAt(pos token.Pos) string {
	txt := fr.m.P.ExprText(pos)
	name := fr.fn.String()
	return name + ": " + txt
}

func (fr *frame) goPanic(class, msg string) {
	panic(&GoPanic{Class: class, Site: fr.site(), Msg: msg, Stack: fr.stack()})
}

func (fr *frame) stack() string {
	var sb strings.Builder
	for f, n := fr, 0; f != nil && n < 14; f, n = f.caller, n+1 {
		sb.WriteString(f.fn.Name())
		sb.WriteString(" <- ")
	}
	return sb.String()
}

// require records the implicit obligation cond (no runtime panic of class)
// and continues assuming it.
func (fr *frame) require(class string, cond *smt.Term) {
	if cond.IsTrue() {
		return
	}
	if cond.IsFalse() {
		fr.goPanic(class, "")
	}
	// Fork: the violating side raises a real Go panic (so that defers and
	// recover() behave as in the real program); the other continues.
	if fr.m.Branch(cond) {
		return
	}
	fr.goPanic(class, "")
}

// ---------- calls ----------

func (m *Machine) call(fn Value, caller *frame, args []Value) Value {
	switch fn := fn.(type) {
	case *ssa.Function:
		if fn == nil {
			if caller != nil {
				caller.goPanic("nil dereference", "call of nil function")
			}
			panic(&GoPanic{Class: "nil dereference", Msg: "call of nil func"})
		}
		return m.callSSA(caller, fn, args, nil)
	case *Closure:
		return m.callSSA(caller, fn.Fn, args, fn.Env)
	case *ssa.Builtin:
		return m.callBuiltin(caller, fn, args)
	case *Native:
		return fn.Fn(m, caller, args)
	}
	panic(fmt.Sprintf("cannot call %T", fn))
}

func (m *Machine) callInit(p *ssa.Package) {
	// run only this package's own initialisers: the synthetic init function
	// first calls the init of every import; skip those calls.
	init := p.Func("init")
	fr := &frame{m: m, fn: init, env: map[ssa.Value]Value{}, visits: map[ssa.Instruction]int{}}
	fr.block = init.Blocks[0]
	if m.inited == nil {
		m.inited = map[*ssa.Package]bool{}
	}
	m.inited[p] = true
	m.env["initOnly"] = p
	defer delete(m.env, "initOnly")
	for fr.block != nil {
		m.runFrame(fr)
	}
}

func (m *Machine) callSSA(caller *frame, fn *ssa.Function, args []Value, env []Value) Value {
	if p, ok := m.env["initOnly"].(*ssa.Package); ok && fn.Name() == "init" && fn.Synthetic != "" && fn.Pkg != p {
		return nil // import's init: skipped (see Options.InitPkgs)
	}
	fr := &frame{m: m, caller: caller, fn: fn}
	if fn.Parent() == nil {
		if nat := m.lookupIntrinsic(fn, args); nat != nil {
			return nat(m, frOr(caller, fr), args)
		}
		if fn.Blocks == nil {
			m.unsupported("no code for function: %s", fn.String())
		}
	}
	if fn.TypeParams().Len() > 0 && len(fn.TypeArgs()) == 0 {
		m.unsupported("uninstantiated generic %s", fn)
	}
	m.depth++
	if m.depth > maxDepth {
		m.abort(abUnwind, "call depth > %d at %s", maxDepth, fn)
	}
	defer func() { m.depth-- }()
	m.E.Stats.Funcs[fn]++
	if m.E.Trace {
		fmt.Printf("%s-> %s\n", strings.Repeat(" ", m.depth), fn)
	}
	fr.env = make(map[ssa.Value]Value, 16)
	fr.visits = map[ssa.Instruction]int{}
	fr.block = fn.Blocks[0]
	fr.locals = make([]Value, len(fn.Locals))
	for i, l := range fn.Locals {
		fr.locals[i] = m.zero(deref(l.Type()))
		fr.env[l] = &fr.locals[i]
	}
	for i, p := range fn.Params {
		fr.env[p] = args[i]
	}
	for i, fv := range fn.FreeVars {
		fr.env[fv] = env[i]
	}
	for fr.block != nil {
		m.runFrame(fr)
	}
	return fr.result
}

func frOr(a, b *frame) *frame {
	if a != nil {
		return a
	}
	return b
}

func (m *Machine) runFrame(fr *frame) {
	defer func() {
		if fr.block == nil {
			return // normal return
		}
		r := recover()
		gp, ok := r.(*GoPanic)
		if !ok {
			panic(r) // engine abort or engine bug: propagate untouched
		}
		fr.panicking = true
		fr.panicVal = gp
		fr.runDefers()
		fr.block = fr.fn.Recover
		if fr.block == nil {
			// recovered in a function without named results: zero result
			fr.result = m.zero(fr.fn.Signature.Results())
			if fr.fn.Signature.Results().Len() == 0 {
				fr.result = nil
			}
		}
	}()
	for {
		instrs := fr.executePhis()
		for _, instr := range instrs {
			m.steps++
			if m.steps > maxSteps || (m.E.Opt.MaxSteps > 0 && m.steps > int64(m.E.Opt.MaxSteps)) {
				m.abort(abBlocked, "step limit exceeded after %d instructions (non-termination?) in %s", m.steps, fr.fn)
			}
			if p := instr.Pos(); p.IsValid() {
				fr.curPos = p
			}
			if m.visitInstr(fr, instr) == kReturn {
				return
			}
		}
	}
}

func (fr *frame) executePhis() []ssa.Instruction {
	first := 0
	for i, instr := range fr.block.Instrs {
		if _, ok := instr.(*ssa.Phi); !ok {
			first = i
			break
		}
	}
	if first > 0 {
		pred := -1
		for i, p := range fr.block.Preds {
			if p == fr.prevBlock {
				pred = i
				break
			}
		}
		tmp := make([]Value, first)
		for i, phi := range fr.block.Instrs[:first] {
			tmp[i] = fr.get(phi.(*ssa.Phi).Edges[pred])
		}
		for i, phi := range fr.block.Instrs[:first] {
			fr.env[phi.(*ssa.Phi)] = tmp[i]
		}
	}
	return fr.block.Instrs[first:]
}

func (fr *frame) runDefer(d *deferred) {
	var ok bool
	defer func() {
		if !ok {
			r := recover()
			if gp, isgp := r.(*GoPanic); isgp {
				fr.panicking = true
				fr.panicVal = gp
			} else {
				panic(r)
			}
		}
	}()
	fr.m.call(d.fn, fr, d.args)
	ok = true
}

func (fr *frame) runDefers() {
	for d := fr.defers; d != nil; d = d.tail {
		fr.runDefer(d)
	}
	fr.defers = nil
	if fr.panicking {
		panic(fr.panicVal)
	}
}

type continuation int

const (
	kNext continuation = iota
	kReturn
	kJump
)

func (fr *frame) prepareCall(call *ssa.CallCommon) (fn Value, args []Value) {
	v := fr.get(call.Value)
	if call.Method == nil {
		fn = v
	} else {
		recv := v.(Iface)
		if recv.T == nil {
			fr.goPanic("nil dereference", "method "+call.Method.Name()+" invoked on nil interface")
		}
		fn = fr.m.lookupMethod(fr, recv, call.Method)
		args = append(args, recv.V)
	}
	for _, a := range call.Args {
		args = append(args, fr.get(a))
	}
	return
}

func (m *Machine) lookupMethod(fr *frame, recv Iface, meth *types.Func) Value {
	if nat := m.fakeMethod(recv, meth); nat != nil {
		return nat
	}
	f := m.P.Prog.LookupMethod(recv.T, meth.Pkg(), meth.Name())
	if f == nil {
		m.unsupported("method set of %v does not contain %s", recv.T, meth.Name())
	}
	return f
}

func (m *Machine) visitInstr(fr *frame, instr ssa.Instruction) continuation {
	switch instr := instr.(type) {
	case *ssa.DebugRef:

	case *ssa.UnOp:
		fr.env[instr] = m.unop(fr, instr, fr.get(instr.X))

	case *ssa.BinOp:
		if (instr.Op == token.SHL || instr.Op == token.SHR) && isSigned(instr.Y.Type()) {
			// a negative signed shift count is a run-time panic
			if cnt, ok := fr.get(instr.Y).(*smt.Term); ok {
				fr.require("negative shift amount", m.C.Sle(m.C.Const(0, cnt.W), cnt))
			}
		}
		fr.env[instr] = m.binop(fr, instr.Op, instr.X.Type(), fr.get(instr.X), fr.get(instr.Y))

	case *ssa.Call:
		fn, args := fr.prepareCall(&instr.Call)
		fr.env[instr] = m.call(fn, fr, args)

	case *ssa.ChangeInterface:
		fr.env[instr] = fr.get(instr.X)

	case *ssa.ChangeType:
		fr.env[instr] = fr.get(instr.X)

	case *ssa.Convert:
		fr.env[instr] = m.conv(fr, instr.Type(), instr.X.Type(), fr.get(instr.X))

	case *ssa.MultiConvert:
		fr.env[instr] = m.conv(fr, instr.Type(), instr.X.Type(), fr.get(instr.X))

	case *ssa.SliceToArrayPointer:
		s := fr.get(instr.X).(Slice)
		n := int(deref(instr.Type()).Underlying().(*types.Array).Len())
		if s.Len < n {
			fr.goPanic("slice bounds out of range", "slice to array pointer")
		}
		if s.A == nil {
			fr.env[instr] = (*Value)(nil)
		} else {
			// materialise an array view: copy semantics are wrong for writes,
			// so refuse.
			m.unsupported("SliceToArrayPointer")
		}

	case *ssa.MakeInterface:
		fr.env[instr] = Iface{T: instr.X.Type(), V: fr.get(instr.X)}

	case *ssa.Extract:
		fr.env[instr] = fr.get(instr.Tuple).(Tuple)[instr.Index]

	case *ssa.Slice:
		fr.env[instr] = m.sliceOp(fr, instr)

	case *ssa.Return:
		switch len(instr.Results) {
		case 0:
		case 1:
			fr.result = fr.get(instr.Results[0])
		default:
			res := make(Tuple, len(instr.Results))
			for i, r := range instr.Results {
				res[i] = fr.get(r)
			}
			fr.result = res
		}
		fr.block = nil
		return kReturn

	case *ssa.RunDefers:
		fr.runDefers()

	case *ssa.Panic:
		v := fr.get(instr.X)
		gp := &GoPanic{Val: v, Site: fr.site()}
		if itf, ok := v.(Iface); ok {
			gp.Msg = m.describe(itf)
		}
		panic(gp)

	case *ssa.Send:
		ch := fr.get(instr.Chan).(*Chan)
		if ch == nil {
			m.abort(abBlocked, "send on nil channel at %s", fr.site())
		}
		m.chanSend(fr, ch, fr.get(instr.X))

	case *ssa.Store:
		p := fr.get(instr.Addr).(*Value)
		if p == nil {
			fr.goPanic("nil dereference", "store through nil pointer")
		}
		m.onWrite(fr, p)
		store(p, fr.get(instr.Val))

	case *ssa.If:
		c := fr.get(instr.Cond).(*smt.Term)
		if !c.IsConst() {
			fr.visits[instr]++
			if fr.visits[instr] > m.E.Opt.Unwind {
				m.abort(abUnwind, "loop bound %d exceeded at %s", m.E.Opt.Unwind, fr.site())
			}
		}
		succ := 1
		if m.Branch(c) {
			succ = 0
		}
		fr.prevBlock, fr.block = fr.block, fr.block.Succs[succ]
		return kJump

	case *ssa.Jump:
		fr.prevBlock, fr.block = fr.block, fr.block.Succs[0]
		return kJump

	case *ssa.Defer:
		fn, args := fr.prepareCall(&instr.Call)
		fr.defers = &deferred{fn: fn, args: args, instr: instr, tail: fr.defers}

	case *ssa.Go:
		fn, args := fr.prepareCall(&instr.Call)
		m.goStmt(fr, fn, args)

	case *ssa.MakeChan:
		fr.env[instr] = &Chan{}

	case *ssa.Alloc:
		var addr *Value
		if instr.Heap {
			addr = new(Value)
			fr.env[instr] = addr
		} else {
			addr = fr.env[instr].(*Value)
		}
		*addr = m.zero(deref(instr.Type()))

	case *ssa.MakeSlice:
		ln := m.concreteInt(fr, fr.get(instr.Len), "make: len", 1<<20)
		cp := m.concreteInt(fr, fr.get(instr.Cap), "make: cap", 1<<20)
		if ln < 0 || cp < ln {
			fr.goPanic("makeslice: len out of range", "")
		}
		tElt := instr.Type().Underlying().(*types.Slice).Elem()
		cells := m.newCells(cp, func() Value { return m.zero(tElt) })
		fr.env[instr] = Slice{A: cells, Len: ln, Cap: cp}

	case *ssa.MakeMap:
		mt := instr.Type().Underlying().(*types.Map)
		fr.env[instr] = &Map{KT: mt.Key(), VT: mt.Elem()}

	case *ssa.Range:
		fr.env[instr] = m.rangeIter(fr, fr.get(instr.X), instr.X.Type())

	case *ssa.Next:
		fr.env[instr] = fr.get(instr.Iter).(iter).next()

	case *ssa.FieldAddr:
		p := fr.get(instr.X).(*Value)
		if p == nil {
			fr.goPanic("nil dereference", "field address of nil pointer")
		}
		fr.env[instr] = &(*p).(Struct)[instr.Field]

	case *ssa.Field:
		fr.env[instr] = copyVal(fr.get(instr.X).(Struct)[instr.Field])

	case *ssa.IndexAddr:
		x := fr.get(instr.X)
		switch x := x.(type) {
		case Slice:
			i := m.index(fr, fr.get(instr.Index), instr.Index.Type(), x.Len)
			fr.env[instr] = x.at(i)
		case *Value:
			if x == nil {
				fr.goPanic("nil dereference", "index of nil array pointer")
			}
			a := (*x).(Array)
			i := m.index(fr, fr.get(instr.Index), instr.Index.Type(), len(a))
			fr.env[instr] = &a[i]
		default:
			panic(fmt.Sprintf("IndexAddr: unexpected %T", x))
		}

	case *ssa.Index:
		x := fr.get(instr.X)
		switch x := x.(type) {
		case Array:
			i := m.index(fr, fr.get(instr.Index), instr.Index.Type(), len(x))
			fr.env[instr] = copyVal(x[i])
		case string, *Str:
			b := m.strBytes(fr, x)
			fr.env[instr] = m.indexRead(fr, b, fr.get(instr.Index), instr.Index.Type())
		default:
			panic(fmt.Sprintf("Index: unexpected %T", x))
		}

	case *ssa.Lookup:
		fr.env[instr] = m.lookup(fr, instr, fr.get(instr.X), fr.get(instr.Index))

	case *ssa.MapUpdate:
		mp := fr.get(instr.Map).(*Map)
		if mp == nil {
			fr.goPanic("assignment to entry in nil map", "")
		}
		m.onMapAccess(fr, mp, true)
		m.mapUpdate(fr, mp, fr.get(instr.Key), fr.get(instr.Value))

	case *ssa.TypeAssert:
		fr.env[instr] = m.typeAssert(fr, instr, fr.get(instr.X).(Iface))

	case *ssa.MakeClosure:
		var b []Value
		for _, x := range instr.Bindings {
			b = append(b, fr.get(x))
		}
		fr.env[instr] = &Closure{Fn: instr.Fn.(*ssa.Function), Env: b}

	case *ssa.Select:
		fr.env[instr] = m.selectOp(fr, instr)

	default:
		panic(fmt.Sprintf("unexpected instruction: %T", instr))
	}
	return kNext
}

// index checks idx against [0,n) (implicit panic) and returns a concrete index.
func (m *Machine) index(fr *frame, idx Value, it types.Type, n int) int {
	t := idx.(*smt.Term)
	if t.IsConst() {
		var i int64
		if isSigned(it) {
			i = t.Signed()
		} else {
			i = int64(t.Val)
			if t.Val > 1<<62 {
				i = -1
			}
		}
		if i < 0 || i >= int64(n) {
			fr.goPanic("index out of range", fmt.Sprintf("index %d, length %d", i, n))
		}
		return int(i)
	}
	t64 := m.toW(t, it, 64)
	fr.require("index out of range", m.C.Ult(t64, m.C.Const(uint64(n), 64)))
	return int(m.Concretize(t64, n+1))
}

// indexRead reads element idx of a byte sequence; symbolic indices produce
// an ite-chain instead of forking.
func (m *Machine) indexRead(fr *frame, b []*smt.Term, idx Value, it types.Type) *smt.Term {
	t := idx.(*smt.Term)
	if t.IsConst() {
		return b[m.index(fr, idx, it, len(b))]
	}
	t64 := m.toW(t, it, 64)
	fr.require("index out of range", m.C.Ult(t64, m.C.Const(uint64(len(b)), 64)))
	if len(b) > 64 {
		return b[int(m.Concretize(t64, len(b)+1))]
	}
	r := b[len(b)-1]
	for i := len(b) - 2; i >= 0; i-- {
		r = m.C.Ite(m.C.Eq(t64, m.C.Const(uint64(i), 64)), b[i], r)
	}
	return r
}

// concreteInt returns a concrete (signed) int for v, forking if symbolic.
func (m *Machine) concreteInt(fr *frame, v Value, what string, limit int) int {
	if v == nil {
		return 0
	}
	t := v.(*smt.Term)
	if t.IsConst() {
		return int(t.Signed())
	}
	x := m.Concretize(t, limit)
	return int(m.C.Const(x, t.W).Signed())
}

func (m *Machine) toW(t *smt.Term, from types.Type, w int) *smt.Term {
	if t.W == w {
		return t
	}
	if isSigned(from) {
		return m.C.Sext(t, w)
	}
	return m.C.Zext(t, w)
}

func (m *Machine) describe(itf Iface) string {
	switch v := itf.V.(type) {
	case string:
		return v
	case *Opaque:
		if s, ok := v.Data.(string); ok {
			return v.Kind + ": " + s
		}
		return v.Kind
	}
	if itf.T != nil {
		return itf.T.String()
	}
	return "nil"
}

// goStmt: goroutines are not scheduled in sequential mode; they are recorded.
func (m *Machine) goStmt(fr *frame, fn Value, args []Value) {
	if m.goThread(fn, args) {
		return
	}
	if m.cfg("go.inline") {
		// run the goroutine's function here, to completion or until it blocks
		// (a goroutine that blocks is simply parked); a panic in it crashes the
		// process and therefore propagates
		func() {
			defer func() {
				if r := recover(); r != nil {
					if pa, ok := r.(pathAbort); ok && pa.kind == abBlocked {
						m.events = append(m.events, "goroutine parked: "+pa.msg)
						return
					}
					panic(r)
				}
			}()
			m.call(fn, fr, args)
		}()
		return
	}
	m.events = append(m.events, "go statement not executed at "+fr.site())
	gl, _ := m.env["goroutines"].([]Value)
	m.env["goroutines"] = append(gl, fn)
}
