package sx

import (
	"fmt"
	"go/token"
	"go/types"
	"math"
	"unicode/utf8"

	"golang.org/x/tools/go/ssa"

	"gosx/smt"
)

// ---------- strings ----------

// strBytes returns the byte terms of a string value (forking on the digit
// count for decimal-text strings).
func (m *Machine) strBytes(fr *frame, v Value) []*smt.Term {
	switch s := v.(type) {
	case string:
		b := make([]*smt.Term, len(s))
		for i := 0; i < len(s); i++ {
			b[i] = m.b8(s[i])
		}
		return b
	case *Str:
		if s.Dec != nil {
			return m.decBytes(fr, s.Dec)
		}
		return s.B
	}
	panic(fmt.Sprintf("strBytes: %T", v))
}

func (m *Machine) mkStr(b []*smt.Term) Value {
	buf := make([]byte, len(b))
	for i, t := range b {
		if !t.IsConst() {
			return &Str{B: b}
		}
		buf[i] = byte(t.Val)
	}
	return string(buf)
}

func concreteStr(v Value) (string, bool) {
	switch s := v.(type) {
	case string:
		return s, true
	case *Str:
		if s.Dec != nil {
			if s.Dec.IsConst() {
				return fmt.Sprint(s.Dec.Signed()), true
			}
			return "", false
		}
		buf := make([]byte, len(s.B))
		for i, t := range s.B {
			if !t.IsConst() {
				return "", false
			}
			buf[i] = byte(t.Val)
		}
		return string(buf), true
	}
	return "", false
}

// decLen returns the number of characters of the decimal text of the int64
// term t on this path (forks over the 20 classes).
func (m *Machine) decClass(fr *frame, t *smt.Term) (neg bool, digits int) {
	c := m.C
	if t.IsConst() {
		s := fmt.Sprint(t.Signed())
		if s[0] == '-' {
			return true, len(s) - 1
		}
		return false, len(s)
	}
	neg = m.Branch(c.Slt(t, c.Const(0, 64)))
	// magnitude as unsigned
	mag := t
	if neg {
		mag = c.Neg(t)
	}
	p := uint64(10)
	for d := 1; d < 20; d++ {
		if m.Branch(c.Ult(mag, c.Const(p, 64))) {
			return neg, d
		}
		if d == 19 {
			break
		}
		p *= 10
	}
	return neg, 20
}

// decLenTerm is len(strconv.FormatInt(t, 10)) as a term (no forking).
func (m *Machine) decLenTerm(t *smt.Term) *smt.Term {
	c := m.C
	neg := c.Slt(t, c.Const(0, 64))
	mag := c.Ite(neg, c.Neg(t), t)
	r := c.Const(20, 64)
	p := uint64(10000000000000000000)
	for d := 19; d >= 1; d-- {
		r = c.Ite(c.Ult(mag, c.Const(p, 64)), c.Const(uint64(d), 64), r)
		p /= 10
	}
	return c.Add(r, c.Ite(neg, c.Const(1, 64), c.Const(0, 64)))
}

func (m *Machine) decBytes(fr *frame, t *smt.Term) []*smt.Term {
	c := m.C
	neg, nd := m.decClass(fr, t)
	mag := t
	if neg {
		mag = c.Neg(t)
	}
	out := make([]*smt.Term, 0, nd+1)
	if neg {
		out = append(out, m.b8('-'))
	}
	digs := make([]*smt.Term, nd)
	x := mag
	for i := nd - 1; i >= 0; i-- {
		d := c.URem(x, c.Const(10, 64))
		digs[i] = c.Add(c.Extract(d, 7, 0), m.b8('0'))
		x = c.UDiv(x, c.Const(10, 64))
	}
	return append(out, digs...)
}

func (m *Machine) strLen(fr *frame, v Value) int {
	switch s := v.(type) {
	case string:
		return len(s)
	case *Str:
		if s.Dec != nil {
			neg, nd := m.decClass(fr, s.Dec)
			if neg {
				return nd + 1
			}
			return nd
		}
		return len(s.B)
	}
	panic(fmt.Sprintf("strLen: %T", v))
}

func (m *Machine) bytesEq(a, b []*smt.Term) *smt.Term {
	if len(a) != len(b) {
		return m.C.False
	}
	r := m.C.True
	for i := range a {
		r = m.C.And(r, m.C.Eq(a[i], b[i]))
		if r.IsFalse() {
			return r
		}
	}
	return r
}

func (m *Machine) strEq(fr *frame, x, y Value) *smt.Term {
	if sx, ok := x.(string); ok {
		if sy, ok := y.(string); ok {
			return m.C.Bool(sx == sy)
		}
	}
	if dx, ok := x.(*Str); ok && dx.Dec != nil {
		if dy, ok := y.(*Str); ok && dy.Dec != nil {
			return m.C.Eq(dx.Dec, dy.Dec)
		}
	}
	return m.bytesEq(m.strBytes(fr, x), m.strBytes(fr, y))
}

// sliceBytes returns the byte terms of a []byte slice.
func (m *Machine) sliceBytes(s Slice) []*smt.Term {
	b := make([]*smt.Term, s.Len)
	for i := 0; i < s.Len; i++ {
		b[i] = (*s.at(i)).(*smt.Term)
	}
	return b
}

func (m *Machine) bytesToSlice(b []*smt.Term) Slice {
	c := &Cells{E: make([]Value, len(b))}
	for i, t := range b {
		c.E[i] = t
	}
	return Slice{A: c, Len: len(b), Cap: len(b)}
}

// ---------- unary ----------

func (m *Machine) unop(fr *frame, instr *ssa.UnOp, x Value) Value {
	switch instr.Op {
	case token.MUL: // load
		p := x.(*Value)
		if p == nil {
			fr.goPanic("nil dereference", "load through nil pointer")
		}
		m.onRead(fr, p)
		return copyVal(*p)
	case token.NOT:
		return m.C.Not(x.(*smt.Term))
	case token.SUB:
		switch x := x.(type) {
		case *smt.Term:
			return m.C.Neg(x)
		case Float:
			return Float{OK: x.OK, F: -x.F, W: x.W}
		}
	case token.XOR:
		return m.C.BNot(x.(*smt.Term))
	case token.ARROW:
		ch := x.(*Chan)
		v, ok := m.chanRecv(fr, ch, instr.X.Type().Underlying().(*types.Chan).Elem())
		if instr.CommaOk {
			return Tuple{v, m.C.Bool(ok)}
		}
		return v
	}
	panic(fmt.Sprintf("unop: %v %T", instr.Op, x))
}

// ---------- binary ----------

func (m *Machine) binop(fr *frame, op token.Token, t types.Type, x, y Value) Value {
	c := m.C
	switch op {
	case token.EQL:
		return m.equals(fr, t, x, y)
	case token.NEQ:
		return c.Not(m.equals(fr, t, x, y))
	}
	switch xv := x.(type) {
	case *smt.Term:
		yv := y.(*smt.Term)
		if xv.W == 0 { // bool: only == != reach here
			panic("binop on bools: " + op.String())
		}
		signed := isSigned(t)
		switch op {
		case token.ADD:
			return c.Add(xv, yv)
		case token.SUB:
			return c.Sub(xv, yv)
		case token.MUL:
			return c.Mul(xv, yv)
		case token.QUO, token.REM:
			fr.require("integer divide by zero", c.Not(c.Eq(yv, c.Const(0, yv.W))))
			if op == token.QUO {
				if signed {
					return c.SDiv(xv, yv)
				}
				return c.UDiv(xv, yv)
			}
			if signed {
				return c.SRem(xv, yv)
			}
			return c.URem(xv, yv)
		case token.AND:
			return c.BAnd(xv, yv)
		case token.OR:
			return c.BOr(xv, yv)
		case token.XOR:
			return c.BXor(xv, yv)
		case token.AND_NOT:
			return c.BAnd(xv, c.BNot(yv))
		case token.SHL, token.SHR:
			// shift count may have a different width; Go semantics: count is
			// unsigned (negative signed count panics), shifts >= width give 0 / sign.
			cnt := yv
			if cnt.W < xv.W {
				cnt = c.Zext(cnt, xv.W)
			} else if cnt.W > xv.W {
				// saturate
				big := c.Ult(c.Const(uint64(xv.W), cnt.W), cnt)
				cnt = c.Ite(big, c.Const(uint64(xv.W), xv.W), c.Extract(cnt, xv.W-1, 0))
			}
			if op == token.SHL {
				return c.Shl(xv, cnt)
			}
			if signed {
				return c.AShr(xv, cnt)
			}
			return c.LShr(xv, cnt)
		case token.LSS:
			if signed {
				return c.Slt(xv, yv)
			}
			return c.Ult(xv, yv)
		case token.LEQ:
			if signed {
				return c.Sle(xv, yv)
			}
			return c.Ule(xv, yv)
		case token.GTR:
			if signed {
				return c.Slt(yv, xv)
			}
			return c.Ult(yv, xv)
		case token.GEQ:
			if signed {
				return c.Sle(yv, xv)
			}
			return c.Ule(yv, xv)
		}
	case Float:
		yv := y.(Float)
		ok := xv.OK && yv.OK
		switch op {
		case token.ADD:
			return m.fl(ok, xv.F+yv.F, xv.W)
		case token.SUB:
			return m.fl(ok, xv.F-yv.F, xv.W)
		case token.MUL:
			return m.fl(ok, xv.F*yv.F, xv.W)
		case token.QUO:
			return m.fl(ok, xv.F/yv.F, xv.W)
		case token.LSS, token.LEQ, token.GTR, token.GEQ:
			if !ok {
				kx, ox, okx := m.floatKey(xv)
				ky, oy, oky := m.floatKey(yv)
				if okx && oky {
					lt := func(ka, oa, kb, ob *smt.Term) *smt.Term {
						return c.And(c.Not(oa), c.Or(ob, c.Slt(ka, kb)))
					}
					switch op {
					case token.LSS:
						return lt(kx, ox, ky, oy)
					case token.LEQ:
						return c.Not(lt(ky, oy, kx, ox))
					case token.GTR:
						return lt(ky, oy, kx, ox)
					default:
						return c.Not(lt(kx, ox, ky, oy))
					}
				}
				m.unsupported("comparison of havoc float at %s", fr.site())
			}
			switch op {
			case token.LSS:
				return c.Bool(xv.F < yv.F)
			case token.LEQ:
				return c.Bool(xv.F <= yv.F)
			case token.GTR:
				return c.Bool(xv.F > yv.F)
			default:
				return c.Bool(xv.F >= yv.F)
			}
		}
	case string, *Str:
		switch op {
		case token.ADD:
			if sx, ok := x.(string); ok {
				if sy, ok := y.(string); ok {
					return sx + sy
				}
			}
			bx := m.strBytes(fr, x)
			by := m.strBytes(fr, y)
			return m.mkStr(append(append([]*smt.Term{}, bx...), by...))
		case token.LSS, token.LEQ, token.GTR, token.GEQ:
			sx, ok1 := concreteStr(x)
			sy, ok2 := concreteStr(y)
			if !ok1 || !ok2 {
				m.unsupported("ordered comparison of symbolic strings at %s", fr.site())
			}
			switch op {
			case token.LSS:
				return c.Bool(sx < sy)
			case token.LEQ:
				return c.Bool(sx <= sy)
			case token.GTR:
				return c.Bool(sx > sy)
			default:
				return c.Bool(sx >= sy)
			}
		}
	}
	panic(fmt.Sprintf("binop: %v on %T, %T", op, x, y))
}

// floatKey orders an integer-valued float (the float64 nearest to an int64
// term, or an integral constant) exactly: key is the rounded value as a
// signed 64-bit term, ov is true when the rounded value is +2^63 (key then
// holds the amd64 "integer indefinite" bit pattern).
func (m *Machine) floatKey(f Float) (key, ov *smt.Term, ok bool) {
	c := m.C
	var t *smt.Term
	switch {
	case f.OK:
		if f.F != math.Trunc(f.F) || math.Abs(f.F) > 1<<62 {
			return nil, nil, false
		}
		return m.i64(int64(f.F)), c.False, true
	case f.Int != nil:
		t = f.Int
	default:
		return nil, nil, false
	}
	neg := c.Slt(t, m.i64(0))
	mag := c.Ite(neg, c.Sub(m.i64(0), t), t) // unsigned magnitude, up to 2^63
	r := mag
	for k := 1; k <= 11; k++ {
		// magnitudes in [2^(52+k), 2^(53+k)) keep 53 bits: drop k bits, round half to even
		q := c.LShr(mag, c.Const(uint64(k), 64))
		rem := c.BAnd(mag, c.Const(uint64(1)<<uint(k)-1, 64))
		half := c.Const(uint64(1)<<uint(k-1), 64)
		odd := c.Eq(c.BAnd(q, c.Const(1, 64)), c.Const(1, 64))
		up := c.Or(c.Ult(half, rem), c.And(c.Eq(rem, half), odd))
		rk := c.Shl(c.Add(q, c.Ite(up, c.Const(1, 64), c.Const(0, 64))), c.Const(uint64(k), 64))
		r = c.Ite(c.Ule(c.Const(uint64(1)<<uint(52+k), 64), mag), rk, r)
	}
	ov = c.And(c.Not(neg), c.Eq(r, c.Const(1<<63, 64)))
	return c.Ite(neg, c.Sub(m.i64(0), r), r), ov, true
}

func (m *Machine) fl(ok bool, f float64, w int) Float {
	if !ok {
		return Float{W: w}
	}
	if w == 32 {
		f = float64(float32(f))
	}
	return Float{OK: true, F: f, W: w}
}

// equals implements Go's == as a boolean term.
func (m *Machine) equals(fr *frame, t types.Type, x, y Value) *smt.Term {
	c := m.C
	switch xv := x.(type) {
	case *smt.Term:
		return c.Eq(xv, y.(*smt.Term))
	case Float:
		yv := y.(Float)
		if !xv.OK || !yv.OK {
			kx, ox, okx := m.floatKey(xv)
			ky, oy, oky := m.floatKey(yv)
			if okx && oky {
				return c.And(c.Eq(kx, ky), c.Eq(ox, oy))
			}
			m.unsupported("equality of havoc float at %s", fr.site())
		}
		return c.Bool(xv.F == yv.F)
	case string, *Str:
		return m.strEq(fr, x, y)
	case *Value:
		return c.Bool(xv == y.(*Value))
	case *Map:
		return c.Bool(xv == y.(*Map))
	case *Chan:
		return c.Bool(xv == y.(*Chan))
	case Slice: // only comparable with nil
		ys := y.(Slice)
		if ys.A == nil {
			return c.Bool(xv.A == nil)
		}
		if xv.A == nil {
			return c.Bool(ys.A == nil)
		}
		panic("slice comparison")
	case Struct:
		yv := y.(Struct)
		st := t.Underlying().(*types.Struct)
		r := c.True
		for i := range xv {
			if st.Field(i).Name() == "_" {
				continue
			}
			r = c.And(r, m.equals(fr, st.Field(i).Type(), xv[i], yv[i]))
		}
		return r
	case Array:
		yv := y.(Array)
		et := t.Underlying().(*types.Array).Elem()
		r := c.True
		for i := range xv {
			r = c.And(r, m.equals(fr, et, xv[i], yv[i]))
		}
		return r
	case Iface:
		yv := y.(Iface)
		if xv.T == nil || yv.T == nil {
			return c.Bool(xv.T == nil && yv.T == nil)
		}
		if !types.Identical(xv.T, yv.T) {
			return c.False
		}
		return m.equals(fr, xv.T, xv.V, yv.V)
	case *ssa.Function:
		if yf, ok := y.(*ssa.Function); ok {
			return c.Bool(xv == yf)
		}
		return c.Bool(xv == nil && y == nil)
	case *Closure:
		if yf, ok := y.(*ssa.Function); ok && yf == nil {
			return c.False
		}
		return c.Bool(x == y)
	case RType:
		return c.Bool(types.Identical(xv.T, y.(RType).T))
	case *Opaque:
		return c.Bool(x == y)
	case *Native:
		return c.Bool(x == y)
	case nil:
		return c.Bool(y == nil)
	}
	panic(fmt.Sprintf("equals: %T %T", x, y))
}

// ---------- conversions ----------

func (m *Machine) conv(fr *frame, tdst, tsrc types.Type, x Value) Value {
	c := m.C
	ud := tdst.Underlying()
	us := tsrc.Underlying()
	switch us := us.(type) {
	case *types.Pointer, *types.Signature, *types.Chan, *types.Map, *types.Struct, *types.Array, *types.Interface:
		return x
	case *types.Slice:
		switch udt := ud.(type) {
		case *types.Basic: // []byte or []rune -> string
			if udt.Info()&types.IsString == 0 {
				break
			}
			s := x.(Slice)
			if b, ok := us.Elem().Underlying().(*types.Basic); ok && b.Kind() == types.Uint8 {
				return m.mkStr(m.sliceBytes(s))
			}
			// []rune
			rs := make([]rune, s.Len)
			for i := range rs {
				t := (*s.at(i)).(*smt.Term)
				if !t.IsConst() {
					m.unsupported("string([]rune) with symbolic runes")
				}
				rs[i] = rune(t.Signed())
			}
			return string(rs)
		case *types.Slice:
			return x
		case *types.Pointer: // slice to array pointer
			m.unsupported("slice to array pointer conversion")
		case *types.Array:
			s := x.(Slice)
			n := int(udt.Len())
			if s.Len < n {
				fr.goPanic("slice bounds out of range", "slice to array")
			}
			a := make(Array, n)
			for i := range a {
				a[i] = copyVal(*s.at(i))
			}
			return a
		}
	case *types.Basic:
		switch udt := ud.(type) {
		case *types.Slice:
			if us.Info()&types.IsString != 0 {
				if b, ok := udt.Elem().Underlying().(*types.Basic); ok && b.Kind() == types.Uint8 {
					return m.bytesToSlice(append([]*smt.Term{}, m.strBytes(fr, x)...))
				}
				s, ok := concreteStr(x)
				if !ok {
					m.unsupported("[]rune(symbolic string)")
				}
				rs := []rune(s)
				cs := &Cells{E: make([]Value, len(rs))}
				for i, r := range rs {
					cs.E[i] = c.Const(uint64(r), 32)
				}
				return Slice{A: cs, Len: len(rs), Cap: len(rs)}
			}
		case *types.Basic:
			if udt.Kind() == types.UnsafePointer || us.Kind() == types.UnsafePointer {
				return x
			}
			switch {
			case us.Info()&types.IsInteger != 0:
				xt := x.(*smt.Term)
				switch {
				case udt.Info()&types.IsInteger != 0:
					w := intWidth(udt)
					if us.Info()&types.IsUnsigned != 0 {
						return c.Zext(xt, w)
					}
					return c.Sext(xt, w)
				case udt.Info()&types.IsFloat != 0:
					fw := 64
					if udt.Kind() == types.Float32 {
						fw = 32
					}
					if !xt.IsConst() {
						if fw == 64 && (xt.W < 64 || us.Info()&types.IsUnsigned == 0) {
							// exact model: the float64 nearest to the integer
							if us.Info()&types.IsUnsigned != 0 {
								return Float{W: 64, Int: c.Zext(xt, 64)}
							}
							return Float{W: 64, Int: c.Sext(xt, 64)}
						}
						return Float{W: fw}
					}
					if us.Info()&types.IsUnsigned != 0 {
						return m.fl(true, float64(xt.Val), fw)
					}
					return m.fl(true, float64(xt.Signed()), fw)
				case udt.Info()&types.IsString != 0:
					if !xt.IsConst() {
						// string(rune): ASCII only when symbolic
						m.unsupported("string(symbolic rune) at %s", fr.site())
					}
					return string(rune(xt.Signed()))
				}
			case us.Info()&types.IsFloat != 0:
				xf := x.(Float)
				switch {
				case udt.Info()&types.IsFloat != 0:
					fw := 64
					if udt.Kind() == types.Float32 {
						fw = 32
					}
					if fw == 64 && !xf.OK && xf.Int != nil {
						return xf
					}
					return m.fl(xf.OK, xf.F, fw)
				case udt.Info()&types.IsInteger != 0:
					w := intWidth(udt)
					if !xf.OK && xf.Int != nil && w == 64 && udt.Info()&types.IsUnsigned == 0 {
						// int64(float64(t)): t rounded to 53 significant bits; a
						// result of 2^63 converts to the amd64 "integer indefinite"
						// value, which is the low 64 bits of the key.
						k, _, _ := m.floatKey(xf)
						return k
					}
					if !xf.OK && xf.Pow10Of != nil && w == 64 && udt.Info()&types.IsUnsigned == 0 {
						// int64(math.Pow10(e)) for symbolic e, abstracted: a fresh
						// value that is 0 exactly when e < 0 (10^e < 1) and non-zero
						// otherwise. An over-approximation of the real value, sound for
						// every property that does not depend on the power itself.
						e := xf.Pow10Of
						pw := m.fresh("pow10", 64)
						isNeg := c.Slt(e, m.i64(0))
						fact := c.And(c.Implies(isNeg, c.Eq(pw, m.i64(0))), c.Implies(c.Not(isNeg), c.Not(c.Eq(pw, m.i64(0)))))
						if m.isAssumption == nil {
							m.isAssumption = map[*smt.Term]bool{}
						}
						m.isAssumption[fact] = true
						m.assume(fact)
						m.noteAssumption("int64(math.Pow10(e)) with symbolic e is abstracted to an arbitrary value that is zero iff e < 0")
						return pw
					}
					if !xf.OK {
						m.E.Stats.HavocFloat++
						m.noteAssumption("a float value that depends on symbolic input was converted to an integer: modelled as an arbitrary integer")
						return m.fresh("f2i", w)
					}
					return c.Const(floatToInt(xf.F, udt), w)
				}
			case us.Info()&types.IsString != 0:
				if udt.Info()&types.IsString != 0 {
					return x
				}
			case us.Info()&types.IsBoolean != 0:
				return x
			case us.Info()&types.IsComplex != 0:
				return x
			}
		}
	case *types.TypeParam:
		m.unsupported("conversion from type parameter")
	}
	panic(fmt.Sprintf("conv: %v -> %v (%T)", tsrc, tdst, x))
}

// floatToInt mimics amd64 conversion semantics for in-range values and the
// "integer indefinite" result for out-of-range ones.
func floatToInt(f float64, b *types.Basic) uint64 {
	if b.Info()&types.IsUnsigned != 0 {
		if f >= 0 && f < 18446744073709551616.0 {
			if b.Kind() == types.Uint64 || b.Kind() == types.Uint || b.Kind() == types.Uintptr {
				return uint64(f)
			}
			return uint64(int64(f))
		}
		if f < 0 && f > -9223372036854775808.0 {
			return uint64(int64(f))
		}
		return 1 << 63
	}
	if math.IsNaN(f) || f >= 9223372036854775808.0 || f < -9223372036854775808.0 {
		return 1 << 63
	}
	return uint64(int64(f))
}

// ---------- slicing ----------

func (m *Machine) sliceOp(fr *frame, instr *ssa.Slice) Value {
	x := fr.get(instr.X)
	var ln, cp int
	var base *Cells
	var off int
	var strB []*smt.Term
	isStr := false
	switch x := x.(type) {
	case Slice:
		ln, cp, base, off = x.Len, x.Cap, x.A, x.Off
	case *Value: // *array
		if x == nil {
			fr.goPanic("nil dereference", "slice of nil array pointer")
		}
		a := (*x).(Array)
		// arrays are stored as Array ([]Value): view them through Cells sharing storage
		base = &Cells{E: a}
		ln, cp = len(a), len(a)
	case string, *Str:
		strB = m.strBytes(fr, x)
		ln, cp = len(strB), len(strB)
		isStr = true
	default:
		panic(fmt.Sprintf("slice of %T", x))
	}
	lo, hi, mx := 0, ln, cp
	bound := func(v ssa.Value, def int, upper int, what string) int {
		if v == nil {
			return def
		}
		t := fr.get(v).(*smt.Term)
		t64 := m.toW(t, v.Type(), 64)
		if t64.IsConst() {
			i := t64.Signed()
			if i < 0 || i > int64(upper) {
				fr.goPanic("slice bounds out of range", fmt.Sprintf("%s %d with limit %d", what, i, upper))
			}
			return int(i)
		}
		fr.require("slice bounds out of range", m.C.Ule(t64, m.C.Const(uint64(upper), 64)))
		return int(m.Concretize(t64, upper+2))
	}
	if instr.Max != nil {
		mx = bound(instr.Max, cp, cp, "max")
	}
	limitHi := cp
	if isStr {
		limitHi = ln
	}
	if instr.Max != nil {
		limitHi = mx
	}
	if instr.High != nil {
		hi = bound(instr.High, ln, limitHi, "high")
	}
	lo = bound(instr.Low, 0, hi, "low")
	if instr.High == nil && lo > ln {
		fr.goPanic("slice bounds out of range", "low > len")
	}
	if !isStr && hi > ln && m.E.Opt.StrictCap {
		// legal Go (hi <= cap) but reads/exposes elements the caller did not pass
		m.Obligation("assert", "reslice beyond len (within cap)", fr.site(), m.C.False)
	}
	if isStr {
		return m.mkStr(strB[lo:hi])
	}
	if base == nil {
		if hi != 0 {
			fr.goPanic("slice bounds out of range", "nil slice")
		}
		return Slice{}
	}
	return Slice{A: base, Off: off + lo, Len: hi - lo, Cap: mx - lo}
}

// ---------- maps ----------

func (m *Machine) keyEq(fr *frame, kt types.Type, a, b Value) *smt.Term {
	return m.equals(fr, kt, a, b)
}

// mapFind returns the entry whose key equals k on this path (forking on
// symbolic equalities), or nil.
func (m *Machine) mapFind(fr *frame, mp *Map, k Value) *mapEntry {
	for _, e := range mp.E {
		if e.Del {
			continue
		}
		if m.Branch(m.keyEq(fr, mp.KT, e.K, k)) {
			return e
		}
	}
	return nil
}

func (m *Machine) lookup(fr *frame, instr *ssa.Lookup, x, idx Value) Value {
	switch x := x.(type) {
	case *Map:
		var v Value
		ok := false
		if x != nil {
			m.onMapAccess(fr, x, false)
			if e := m.mapFind(fr, x, idx); e != nil {
				v, ok = copyVal(e.V), true
			}
		}
		if !ok {
			v = m.zero(instr.X.Type().Underlying().(*types.Map).Elem())
		}
		if instr.CommaOk {
			return Tuple{v, m.C.Bool(ok)}
		}
		return v
	case string, *Str:
		b := m.strBytes(fr, x)
		return m.indexRead(fr, b, idx, instr.Index.Type())
	}
	panic(fmt.Sprintf("lookup in %T", x))
}

func (m *Machine) mapUpdate(fr *frame, mp *Map, k, v Value) {
	if e := m.mapFind(fr, mp, k); e != nil {
		e.V = copyVal(v)
		return
	}
	mp.E = append(mp.E, &mapEntry{K: copyVal(k), V: copyVal(v)})
}

func (m *Machine) mapDelete(fr *frame, mp *Map, k Value) {
	if mp == nil {
		return
	}
	if e := m.mapFind(fr, mp, k); e != nil {
		e.Del = true
	}
}

func (mp *Map) length() int {
	n := 0
	for _, e := range mp.E {
		if !e.Del {
			n++
		}
	}
	return n
}

// ---------- type assertions ----------

func (m *Machine) implements(T types.Type, it *types.Interface) bool {
	if it.NumMethods() == 0 {
		return true
	}
	return types.Implements(T, it)
}

func (m *Machine) typeAssert(fr *frame, instr *ssa.TypeAssert, itf Iface) Value {
	var v Value
	ok := false
	if it, isIface := instr.AssertedType.Underlying().(*types.Interface); isIface {
		if itf.T != nil && (m.implements(itf.T, it) || m.fakeImplements(itf, it)) {
			v, ok = itf, true
		}
	} else if itf.T != nil && types.Identical(itf.T, instr.AssertedType) {
		v, ok = copyVal(itf.V), true
	}
	if !ok {
		if !instr.CommaOk {
			have := "nil"
			if itf.T != nil {
				have = itf.T.String()
			}
			fr.goPanic("interface conversion", fmt.Sprintf("interface is %s, not %s", have, instr.AssertedType))
		}
		v = m.zero(instr.AssertedType)
	}
	if instr.CommaOk {
		return Tuple{v, m.C.Bool(ok)}
	}
	return v
}

// ---------- range ----------

type iter interface{ next() Tuple }

type mapIter struct {
	m  *Machine
	mp *Map
	i  int
}

func (it *mapIter) next() Tuple {
	for it.mp != nil && it.i < len(it.mp.E) {
		e := it.mp.E[it.i]
		it.i++
		if e.Del {
			continue
		}
		return Tuple{it.m.C.True, copyVal(e.K), copyVal(e.V)}
	}
	return Tuple{it.m.C.False, nil, nil}
}

type strIter struct {
	m *Machine
	s string
	i int
}

func (it *strIter) next() Tuple {
	if it.i >= len(it.s) {
		return Tuple{it.m.C.False, nil, nil}
	}
	r, sz := utf8.DecodeRuneInString(it.s[it.i:])
	k := it.i
	it.i += sz
	return Tuple{it.m.C.True, it.m.i64(int64(k)), it.m.C.Const(uint64(r), 32)}
}

func (m *Machine) rangeIter(fr *frame, x Value, t types.Type) iter {
	switch x := x.(type) {
	case *Map:
		return &mapIter{m: m, mp: x}
	case string:
		return &strIter{m: m, s: x}
	case *Str:
		// require ASCII so that runes are bytes
		b := m.strBytes(fr, x)
		bs := make([]byte, len(b))
		for i, t := range b {
			if !t.IsConst() {
				m.unsupported("range over symbolic string at %s", fr.site())
			}
			bs[i] = byte(t.Val)
		}
		return &strIter{m: m, s: string(bs)}
	}
	panic(fmt.Sprintf("range over %T", x))
}

// ---------- builtins ----------

func (m *Machine) callBuiltin(fr *frame, fn *ssa.Builtin, args []Value) Value {
	c := m.C
	switch fn.Name() {
	case "append":
		if len(args) == 1 {
			return args[0]
		}
		s := args[0].(Slice)
		var add []Value
		switch a := args[1].(type) {
		case Slice:
			for i := 0; i < a.Len; i++ {
				add = append(add, copyVal(*a.at(i)))
			}
		case string, *Str:
			for _, t := range m.strBytes(fr, a) {
				add = append(add, t)
			}
		}
		if len(add) == 0 {
			return s
		}
		n := s.Len + len(add)
		if s.A != nil && n <= s.Cap {
			for i, v := range add {
				s.A.E[s.Off+s.Len+i] = v
			}
			return Slice{A: s.A, Off: s.Off, Len: n, Cap: s.Cap}
		}
		// grow (Go's policy approximated: double, or exactly n if larger)
		nc := s.Cap * 2
		if nc < n {
			nc = n
		}
		if nc < 8 && s.Cap == 0 {
			nc = n
		}
		et := fn.Type().(*types.Signature).Params().At(0).Type().Underlying().(*types.Slice).Elem()
		cells := &Cells{E: make([]Value, nc)}
		for i := 0; i < s.Len; i++ {
			cells.E[i] = *s.at(i)
		}
		for i, v := range add {
			cells.E[s.Len+i] = v
		}
		for i := n; i < nc; i++ {
			cells.E[i] = m.zero(et)
		}
		return Slice{A: cells, Len: n, Cap: nc}
	case "copy":
		dst := args[0].(Slice)
		var src []Value
		switch a := args[1].(type) {
		case Slice:
			for i := 0; i < a.Len; i++ {
				src = append(src, copyVal(*a.at(i)))
			}
		case string, *Str:
			for _, t := range m.strBytes(fr, a) {
				src = append(src, t)
			}
		}
		n := len(src)
		if dst.Len < n {
			n = dst.Len
		}
		for i := 0; i < n; i++ {
			*dst.at(i) = src[i]
		}
		return m.i64(int64(n))
	case "len":
		switch x := args[0].(type) {
		case string, *Str:
			if ds, ok := x.(*Str); ok && ds.Dec != nil && !ds.Dec.IsConst() {
				return m.decLenTerm(ds.Dec)
			}
			return m.i64(int64(m.strLen(fr, x)))
		case Slice:
			return m.i64(int64(x.Len))
		case Array:
			return m.i64(int64(len(x)))
		case *Value:
			if x == nil {
				// len(*[N]T)(nil) is N; need type
				t := fn.Type().(*types.Signature).Params().At(0).Type()
				return m.i64(deref(t).Underlying().(*types.Array).Len())
			}
			return m.i64(int64(len((*x).(Array))))
		case *Map:
			if x == nil {
				return m.i64(0)
			}
			return m.i64(int64(x.length()))
		case *Chan:
			if x == nil {
				return m.i64(0)
			}
			return m.i64(int64(len(x.Buf)))
		}
	case "cap":
		switch x := args[0].(type) {
		case Slice:
			return m.i64(int64(x.Cap))
		case Array:
			return m.i64(int64(len(x)))
		case *Value:
			return m.i64(int64(len((*x).(Array))))
		case *Chan:
			return m.i64(0)
		}
	case "delete":
		mp := args[0].(*Map)
		if mp != nil {
			m.onMapAccess(fr, mp, true)
		}
		m.mapDelete(fr, mp, args[1])
		return nil
	case "print", "println":
		return nil
	case "panic":
		gp := &GoPanic{Val: args[0], Site: fr.site()}
		if itf, ok := args[0].(Iface); ok {
			gp.Msg = m.describe(itf)
		}
		panic(gp)
	case "recover":
		return m.doRecover(fr)
	case "close":
		ch := args[0].(*Chan)
		if ch == nil {
			fr.goPanic("close of nil channel", "")
		}
		ch.Closed = true
		return nil
	case "min", "max":
		r := args[0]
		for _, a := range args[1:] {
			switch x := r.(type) {
			case *smt.Term:
				y := a.(*smt.Term)
				t := fn.Type().(*types.Signature).Params().At(0).Type()
				var lt *smt.Term
				if isSigned(t) {
					lt = c.Slt(y, x)
				} else {
					lt = c.Ult(y, x)
				}
				if fn.Name() == "max" {
					lt = c.Not(c.Or(lt, c.Eq(x, y)))
				}
				r = c.Ite(lt, y, x)
			default:
				m.unsupported("builtin %s on %T", fn.Name(), r)
			}
		}
		return r
	case "clear":
		switch x := args[0].(type) {
		case *Map:
			if x != nil {
				x.E = nil
			}
		default:
			m.unsupported("clear(%T)", x)
		}
		return nil
	case "ssa:wrapnilchk":
		recv := args[0]
		if p, ok := recv.(*Value); ok && p == nil {
			fr.goPanic("nil dereference", "value method called using nil pointer")
		}
		return recv
	}
	panic(fmt.Sprintf("builtin %s(%T...) not handled", fn.Name(), args[0]))
}

var runtimeErrorType = types.NewNamed(types.NewTypeName(token.NoPos, nil, "gosx.runtimeError", nil), types.NewStruct(nil, nil), nil)

func (m *Machine) doRecover(fr *frame) Value {
	// recover() is effective when called directly by a deferred function
	// while the frame that deferred it is panicking.
	if fr != nil && fr.caller != nil && fr.caller.panicking {
		fr.caller.panicking = false
		gp := fr.caller.panicVal.(*GoPanic)
		fr.caller.panicVal = nil
		m.env["lastRecovered"] = gp
		if gp.Val != nil {
			return gp.Val
		}
		return Iface{T: runtimeErrorType, V: &Opaque{Kind: "runtime.Error", Data: gp.Class + " at " + gp.Site}}
	}
	return Iface{}
}

// ---------- channels (sequential FIFO approximation) ----------

func (m *Machine) chanSend(fr *frame, ch *Chan, v Value) {
	if ch.Closed {
		fr.goPanic("send on closed channel", "")
	}
	ch.Buf = append(ch.Buf, copyVal(v))
	if m.sched() != nil {
		m.yield(nil, "")
	}
}

func (m *Machine) chanRecv(fr *frame, ch *Chan, et types.Type) (Value, bool) {
	if m.sched() != nil {
		site := fr.site()
		m.yield(func() bool { return ch != nil && (len(ch.Buf) > 0 || ch.Closed || ch.Timer) }, "receive at "+site)
	}
	if ch == nil {
		m.abort(abBlocked, "receive from nil channel at %s", fr.site())
	}
	if len(ch.Buf) > 0 {
		v := ch.Buf[0]
		ch.Buf = ch.Buf[1:]
		return v, true
	}
	if ch.Closed {
		return m.zero(et), false
	}
	if ch.Timer {
		m.timerFired(ch)
		return m.zero(et), true
	}
	m.abort(abBlocked, "receive on empty channel with no sender (sequential mode) at %s", fr.site())
	return nil, false
}

func (m *Machine) selectOp(fr *frame, instr *ssa.Select) Value {
	if m.sched() != nil && instr.Blocking {
		return m.selectSched(fr, instr)
	}
	chosen := -1
	var recv Value
	recvOk := false
	// a timer that was created already expired is ready like any other case:
	// Go's select picks among the ready cases at random (forked choice)
	var expired []int
	others := false
	for i, st := range instr.States {
		ch, _ := fr.get(st.Chan).(*Chan)
		if ch == nil {
			continue
		}
		if st.Dir == types.RecvOnly && ch.Timer && ch.Expired {
			expired = append(expired, i)
		} else if st.Dir != types.RecvOnly || len(ch.Buf) > 0 || ch.Closed {
			others = true
		}
	}
	if len(expired) > 0 {
		n := len(expired)
		if others {
			n++
		}
		if k := m.Choose(n); k < len(expired) {
			chosen = expired[k]
			st := instr.States[chosen]
			recv, recvOk = m.zero(st.Chan.Type().Underlying().(*types.Chan).Elem()), true
		}
	}
	// a ready non-timer channel wins; then timers; then default
	for pass := 0; pass < 2 && chosen < 0; pass++ {
		for i, st := range instr.States {
			ch := fr.get(st.Chan).(*Chan)
			if ch == nil {
				continue
			}
			if st.Dir == types.RecvOnly {
				if pass == 0 && (len(ch.Buf) > 0 || ch.Closed) {
					recv, recvOk = m.chanRecv(fr, ch, st.Chan.Type().Underlying().(*types.Chan).Elem())
					chosen = i
					break
				}
				if pass == 1 && ch.Timer {
					m.timerFired(ch)
					recv, recvOk = m.zero(st.Chan.Type().Underlying().(*types.Chan).Elem()), true
					chosen = i
					break
				}
			} else if pass == 0 {
				m.chanSend(fr, ch, fr.get(st.Send))
				chosen = i
				break
			}
		}
	}
	if chosen < 0 && instr.Blocking {
		m.abort(abBlocked, "select with no ready case at %s", fr.site())
	}
	r := Tuple{m.i64(int64(chosen)), m.C.Bool(recvOk)}
	for i, st := range instr.States {
		if st.Dir == types.RecvOnly {
			if i == chosen && recvOk {
				r = append(r, recv)
			} else {
				r = append(r, m.zero(st.Chan.Type().Underlying().(*types.Chan).Elem()))
			}
		}
	}
	return r
}

// ---------- access hooks (lockset instrumentation) ----------

func (m *Machine) onRead(fr *frame, p *Value) {
	if m.env["watch"] != nil {
		m.recordAccess(fr, p, false)
	}
}

func (m *Machine) onWrite(fr *frame, p *Value) {
	if m.env["watch"] != nil {
		m.recordAccess(fr, p, true)
	}
}

func (m *Machine) onMapAccess(fr *frame, mp *Map, write bool) {
	if m.env["watch"] != nil {
		m.recordAccess(fr, mp, write)
	}
}

// selectSched: blocking select under the scheduler. The thread waits until a
// case is ready; a timer case is always a candidate (arbitrary timing), the
// case taken is a forked choice among the candidates.
func (m *Machine) selectSched(fr *frame, instr *ssa.Select) Value {
	ready := func() []int {
		var r []int
		for i, st := range instr.States {
			ch, _ := fr.get(st.Chan).(*Chan)
			if ch == nil {
				continue
			}
			if st.Dir == types.RecvOnly {
				// timers fire (at an arbitrary moment) only where the harness
				// asks for slow peers; otherwise peers are prompt and a timer
				// never wins against an answer that will arrive
				if len(ch.Buf) > 0 || ch.Closed || (ch.Timer && (ch.Expired || m.cfg("sched.timersFire"))) {
					r = append(r, i)
				}
			} else {
				r = append(r, i)
			}
		}
		return r
	}
	site := fr.site()
	// a select that can only be ended by the passing of time (nothing else is
	// ready and no other thread can run) is ended by its timer
	onlyTime := func() []int {
		if len(ready()) > 0 {
			return nil
		}
		s := m.sched()
		for _, t := range s.threads {
			if t != s.cur && s.runnable(t) {
				return nil
			}
		}
		var r []int
		for i, st := range instr.States {
			if ch, _ := fr.get(st.Chan).(*Chan); ch != nil && st.Dir == types.RecvOnly && ch.Timer {
				r = append(r, i)
			}
		}
		return r
	}
	var cand []int
	if t := onlyTime(); len(t) > 0 {
		cand = t
	} else {
		m.yield(func() bool { return len(ready()) > 0 }, "select at "+site)
		cand = ready()
	}
	chosen := cand[m.Choose(len(cand))]
	st := instr.States[chosen]
	ch := fr.get(st.Chan).(*Chan)
	var recv Value
	recvOk := false
	if st.Dir == types.RecvOnly {
		et := st.Chan.Type().Underlying().(*types.Chan).Elem()
		switch {
		case len(ch.Buf) > 0:
			recv, recvOk = ch.Buf[0], true
			ch.Buf = ch.Buf[1:]
		case ch.Closed:
			recv, recvOk = m.zero(et), false
		default: // timer fires
			m.timerFired(ch)
			recv, recvOk = m.zero(et), true
		}
	} else {
		ch.Buf = append(ch.Buf, copyVal(fr.get(st.Send)))
	}
	r := Tuple{m.i64(int64(chosen)), m.C.Bool(recvOk)}
	for i, s2 := range instr.States {
		if s2.Dir == types.RecvOnly {
			if i == chosen && recvOk {
				r = append(r, recv)
			} else {
				r = append(r, m.zero(s2.Chan.Type().Underlying().(*types.Chan).Elem()))
			}
		}
	}
	return r
}
