package sx

import (
	"go/types"

	"gosx/smt"
)

// Symbolic wall-clock instants. A time.Time produced by time.Now() or
// vx.Time() is a Struct{wall, ext, loc} whose wall word is a fresh variable;
// the calendar fields of that instant are kept beside it, constrained to
// their documented ranges, and the accessor methods return them.

type symTime struct {
	year, month, day, hour, min, sec, off *smt.Term
	// mono: nanoseconds on the model's monotonic clock (nil: unrelated instant)
	mono *smt.Term
}

// The model clock: computation takes no time, waiting does. time.Now()
// returns the current clock value; the clock starts at an arbitrary instant
// and advances when a timer fires (to its deadline) or the code sleeps.
func (m *Machine) clock() *smt.Term {
	if t, ok := m.env["clock"].(*smt.Term); ok {
		return t
	}
	t := m.fresh("clock0", 64)
	m.assume(m.C.And(m.C.Sle(m.i64(0), t), m.C.Slt(t, m.i64(1<<60))))
	m.env["clock"] = t
	return t
}

func (m *Machine) advanceClockTo(deadline *smt.Term) {
	cur := m.clock()
	m.env["clock"] = m.C.Ite(m.C.Slt(cur, deadline), deadline, cur)
}

// timerFired: a timer channel delivered; time has passed up to its deadline.
func (m *Machine) timerFired(ch *Chan) {
	if ch != nil && ch.Timer && ch.Deadline != nil && !ch.Expired {
		m.advanceClockTo(ch.Deadline)
		m.lateArrivals()
	}
}

func (m *Machine) timeStruct() Struct {
	tt := m.P.Package("time").Pkg.Scope().Lookup("Time").Type()
	return m.zero(tt).(Struct)
}

func (m *Machine) newSymTime(mk func(name string, w int) *smt.Term) Value {
	c := m.C
	st := &symTime{
		year: mk("year", 64), month: mk("month", 64), day: mk("day", 64),
		hour: mk("hour", 64), min: mk("min", 64), sec: mk("sec", 64), off: mk("zoneoff", 64),
	}
	rng := func(t *smt.Term, lo, hi int64) {
		m.assume(c.And(c.Sle(m.i64(lo), t), c.Sle(t, m.i64(hi))))
	}
	rng(st.year, 1970, 2261)
	rng(st.month, 1, 12)
	rng(st.day, 1, 31)
	rng(st.hour, 0, 23)
	rng(st.min, 0, 59)
	rng(st.sec, 0, 59)
	rng(st.off, -50400, 50400)
	s := m.timeStruct()
	wall := m.fresh("wall", 64)
	s[0] = wall
	times, _ := m.env["times"].(map[*smt.Term]*symTime)
	if times == nil {
		times = map[*smt.Term]*symTime{}
		m.env["times"] = times
	}
	times[wall] = st
	return s
}

func (m *Machine) symTimeOf(v Value) *symTime {
	s, ok := v.(Struct)
	if !ok {
		return nil
	}
	w, ok := s[0].(*smt.Term)
	if !ok {
		return nil
	}
	times, _ := m.env["times"].(map[*smt.Term]*symTime)
	return times[w]
}

func vxTime(m *Machine, fr *frame, args []Value) Value {
	label := mustStr(args[0])
	return m.newSymTime(func(name string, w int) *smt.Term {
		t := m.input(label+"."+name, "int64", 1, w)[0]
		m.tags[label+"."+name] = t
		return t
	})
}

func registerTime() {
	I := intrinsics
	I["time.Now"] = func(m *Machine, fr *frame, args []Value) Value {
		v := m.newSymTime(func(name string, w int) *smt.Term { return m.fresh("now."+name, w) })
		m.symTimeOf(v).mono = m.clock()
		return v
	}
	acc := func(sel func(*symTime) *smt.Term, name string) NativeFn {
		return func(m *Machine, fr *frame, args []Value) Value {
			st := m.symTimeOf(args[0])
			if st == nil {
				m.unsupported("time.Time.%s on a non-symbolic instant", name)
			}
			return sel(st)
		}
	}
	I["(time.Time).Year"] = acc(func(s *symTime) *smt.Term { return s.year }, "Year")
	I["(time.Time).Month"] = acc(func(s *symTime) *smt.Term { return s.month }, "Month")
	I["(time.Time).Day"] = acc(func(s *symTime) *smt.Term { return s.day }, "Day")
	I["(time.Time).Hour"] = acc(func(s *symTime) *smt.Term { return s.hour }, "Hour")
	I["(time.Time).Minute"] = acc(func(s *symTime) *smt.Term { return s.min }, "Minute")
	I["(time.Time).Second"] = acc(func(s *symTime) *smt.Term { return s.sec }, "Second")
	I["(time.Time).Zone"] = func(m *Machine, fr *frame, args []Value) Value {
		st := m.symTimeOf(args[0])
		if st == nil {
			m.unsupported("time.Time.Zone on a non-symbolic instant")
		}
		return Tuple{"", st.off}
	}
	I["(time.Time).Unix"] = func(m *Machine, fr *frame, args []Value) Value { return m.fresh("unix", 64) }
	I["(time.Time).UnixNano"] = func(m *Machine, fr *frame, args []Value) Value { return m.fresh("unixnano", 64) }
	mono := func(m *Machine, v Value) *smt.Term {
		if st := m.symTimeOf(v); st != nil {
			return st.mono
		}
		return nil
	}
	I["time.Since"] = func(m *Machine, fr *frame, args []Value) Value {
		if t := mono(m, args[0]); t != nil {
			return m.C.Sub(m.clock(), t)
		}
		return m.fresh("since", 64)
	}
	I["time.Until"] = func(m *Machine, fr *frame, args []Value) Value {
		if t := mono(m, args[0]); t != nil {
			return m.C.Sub(t, m.clock())
		}
		return m.fresh("until", 64)
	}
	I["(time.Time).Sub"] = func(m *Machine, fr *frame, args []Value) Value {
		a, b := mono(m, args[0]), mono(m, args[1])
		if a != nil && b != nil {
			return m.C.Sub(a, b)
		}
		return m.fresh("sub", 64)
	}
	I["(time.Time).Add"] = func(m *Machine, fr *frame, args []Value) Value {
		v := m.newSymTime(func(name string, w int) *smt.Term { return m.fresh("add."+name, w) })
		if t := mono(m, args[0]); t != nil {
			m.symTimeOf(v).mono = m.C.Add(t, args[1].(*smt.Term))
		}
		return v
	}
	cmp := func(f func(c *smt.Ctx, a, b *smt.Term) *smt.Term, name string) NativeFn {
		return func(m *Machine, fr *frame, args []Value) Value {
			a, b := mono(m, args[0]), mono(m, args[1])
			if a != nil && b != nil {
				return f(m.C, a, b)
			}
			return m.fresh(name, 0)
		}
	}
	I["(time.Time).After"] = cmp(func(c *smt.Ctx, a, b *smt.Term) *smt.Term { return c.Slt(b, a) }, "after")
	I["(time.Time).Before"] = cmp(func(c *smt.Ctx, a, b *smt.Term) *smt.Term { return c.Slt(a, b) }, "before")
	I["time.After"] = func(m *Machine, fr *frame, args []Value) Value {
		d := args[0].(*smt.Term)
		ch := &Chan{Timer: true, Name: "time.After", Deadline: m.C.Add(m.clock(), d)}
		// a timer created with a duration that is not positive is ready at once
		ch.Expired = m.Branch(m.C.Sle(d, m.i64(0)))
		return ch
	}
	I["time.Sleep"] = func(m *Machine, fr *frame, args []Value) Value {
		d := args[0].(*smt.Term)
		m.advanceClockTo(m.C.Add(m.clock(), m.C.Ite(m.C.Slt(m.i64(0), d), d, m.i64(0))))
		return nil
	}
}

func (m *Machine) opaqueMethod(o *Opaque, meth *types.Func) Value {
	if f, ok := opaqueMethods[o.Kind+"."+meth.Name()]; ok {
		return &Native{Name: o.Kind + "." + meth.Name(), Fn: f}
	}
	return nil
}

var opaqueMethods = map[string]NativeFn{}
