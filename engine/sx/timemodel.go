package sx

import (
	"go/types"

	"gosx/smt"
)

// Symbolic wall-clock instants. A time.Time produced by time.Now() or
// vx.Time() is a Struct{wall, ext, loc} whose wall word is a fresh variable;
// the calendar fields of that instant are kept beside it, constrained to
// their documented ranges, and the accessor methods return them.

type symTime struct {
	year, month, day, hour, min, sec, off *smt.Term
}

func (m *Machine) timeStruct() Struct {
	tt := m.P.Package("time").Pkg.Scope().Lookup("Time").Type()
	return m.zero(tt).(Struct)
}

func (m *Machine) newSymTime(mk func(name string, w int) *smt.Term) Value {
	c := m.C
	st := &symTime{
		year: mk("year", 64), month: mk("month", 64), day: mk("day", 64),
		hour: mk("hour", 64), min: mk("min", 64), sec: mk("sec", 64), off: mk("zoneoff", 64),
	}
	rng := func(t *smt.Term, lo, hi int64) {
		m.assume(c.And(c.Sle(m.i64(lo), t), c.Sle(t, m.i64(hi))))
	}
	rng(st.year, 1970, 2261)
	rng(st.month, 1, 12)
	rng(st.day, 1, 31)
	rng(st.hour, 0, 23)
	rng(st.min, 0, 59)
	rng(st.sec, 0, 59)
	rng(st.off, -50400, 50400)
	s := m.timeStruct()
	wall := m.fresh("wall", 64)
	s[0] = wall
	times, _ := m.env["times"].(map[*smt.Term]*symTime)
	if times == nil {
		times = map[*smt.Term]*symTime{}
		m.env["times"] = times
	}
	times[wall] = st
	return s
}

func (m *Machine) symTimeOf(v Value) *symTime {
	s, ok := v.(Struct)
	if !ok {
		return nil
	}
	w, ok := s[0].(*smt.Term)
	if !ok {
		return nil
	}
	times, _ := m.env["times"].(map[*smt.Term]*symTime)
	return times[w]
}

func vxTime(m *Machine, fr *frame, args []Value) Value {
	label := mustStr(args[0])
	return m.newSymTime(func(name string, w int) *smt.Term {
		t := m.input(label+"."+name, "int64", 1, w)[0]
		m.tags[label+"."+name] = t
		return t
	})
}

func registerTime() {
	I := intrinsics
	I["time.Now"] = func(m *Machine, fr *frame, args []Value) Value {
		return m.newSymTime(func(name string, w int) *smt.Term { return m.fresh("now."+name, w) })
	}
	acc := func(sel func(*symTime) *smt.Term, name string) NativeFn {
		return func(m *Machine, fr *frame, args []Value) Value {
			st := m.symTimeOf(args[0])
			if st == nil {
				m.unsupported("time.Time.%s on a non-symbolic instant", name)
			}
			return sel(st)
		}
	}
	I["(time.Time).Year"] = acc(func(s *symTime) *smt.Term { return s.year }, "Year")
	I["(time.Time).Month"] = acc(func(s *symTime) *smt.Term { return s.month }, "Month")
	I["(time.Time).Day"] = acc(func(s *symTime) *smt.Term { return s.day }, "Day")
	I["(time.Time).Hour"] = acc(func(s *symTime) *smt.Term { return s.hour }, "Hour")
	I["(time.Time).Minute"] = acc(func(s *symTime) *smt.Term { return s.min }, "Minute")
	I["(time.Time).Second"] = acc(func(s *symTime) *smt.Term { return s.sec }, "Second")
	I["(time.Time).Zone"] = func(m *Machine, fr *frame, args []Value) Value {
		st := m.symTimeOf(args[0])
		if st == nil {
			m.unsupported("time.Time.Zone on a non-symbolic instant")
		}
		return Tuple{"", st.off}
	}
	I["(time.Time).Unix"] = func(m *Machine, fr *frame, args []Value) Value { return m.fresh("unix", 64) }
	I["(time.Time).UnixNano"] = func(m *Machine, fr *frame, args []Value) Value { return m.fresh("unixnano", 64) }
	I["time.Since"] = func(m *Machine, fr *frame, args []Value) Value { return m.fresh("since", 64) }
	I["(time.Time).Sub"] = func(m *Machine, fr *frame, args []Value) Value { return m.fresh("sub", 64) }
	I["time.After"] = func(m *Machine, fr *frame, args []Value) Value { return &Chan{Timer: true, Name: "time.After"} }
	I["time.Sleep"] = func(m *Machine, fr *frame, args []Value) Value { return nil }
}

func (m *Machine) opaqueMethod(o *Opaque, meth *types.Func) Value {
	if f, ok := opaqueMethods[o.Kind+"."+meth.Name()]; ok {
		return &Native{Name: o.Kind + "." + meth.Name(), Fn: f}
	}
	return nil
}

var opaqueMethods = map[string]NativeFn{}
