package sx

import (
	"fmt"
	"go/types"
	"reflect"
	"strconv"
	"strings"

	"gosx/smt"
)

// Stub of github.com/asaskevich/govalidator.ValidateStruct generated from the
// `valid:"…"` struct tags of the value's (current) type. Semantics follow the
// library: a field with an empty value is only checked for `required`; a
// non-empty field runs its validators; nested structs and non-nil pointers to
// structs are validated recursively unless tagged "-". Validators: required,
// optional, type(…) (always true for the declared Go type), in(a|b|…),
// minstringlength(n), port (1..65535), host / url (approximated: non-empty
// text without blanks / text containing "://"), and custom validators found in
// govalidator.TagMap at the time of the call (the CHF registers "scheme").

const govalidatorPkg = "github.com/asaskevich/govalidator"

func (m *Machine) isEmptyValue(fr *frame, t types.Type, v Value) *smt.Term {
	c := m.C
	switch u := t.Underlying().(type) {
	case *types.Basic:
		switch {
		case u.Info()&types.IsString != 0:
			return c.Bool(m.strLen(fr, v) == 0)
		case u.Info()&types.IsBoolean != 0:
			return c.Not(v.(*smt.Term))
		case u.Info()&types.IsInteger != 0:
			x := v.(*smt.Term)
			return c.Eq(x, c.Const(0, x.W))
		case u.Info()&types.IsFloat != 0:
			f := v.(Float)
			return c.Bool(f.OK && f.F == 0)
		}
	case *types.Pointer, *types.Interface:
		return c.Bool(isNilValue(v))
	case *types.Slice:
		return c.Bool(v.(Slice).Len == 0)
	case *types.Map:
		mp := v.(*Map)
		return c.Bool(mp == nil || mp.length() == 0)
	case *types.Array:
		return c.Bool(u.Len() == 0)
	case *types.Struct:
		return c.False
	}
	return c.False
}

func (m *Machine) validateStruct(fr *frame, t types.Type, v Value, path string, errs *[]string) {
	if pt, ok := t.Underlying().(*types.Pointer); ok {
		p := v.(*Value)
		if p == nil {
			return
		}
		m.validateStruct(fr, pt.Elem(), *p, path, errs)
		return
	}
	st, ok := t.Underlying().(*types.Struct)
	if !ok {
		return
	}
	sv := v.(Struct)
	for i := 0; i < st.NumFields(); i++ {
		f := st.Field(i)
		if !f.Exported() {
			continue
		}
		tag := reflect.StructTag(st.Tag(i)).Get("valid")
		if tag == "-" {
			continue
		}
		fv := sv[i]
		ft := f.Type()
		name := path + "." + f.Name()
		// nested structures
		switch u := ft.Underlying().(type) {
		case *types.Struct:
			m.validateStruct(fr, ft, fv, name, errs)
		case *types.Pointer:
			if _, isStruct := u.Elem().Underlying().(*types.Struct); isStruct && !isNilValue(fv) {
				m.validateStruct(fr, ft, fv, name, errs)
			}
		}
		if tag == "" {
			continue
		}
		opts := map[string]bool{}
		var order []string
		for _, o := range strings.Split(tag, ",") {
			o = strings.TrimSpace(o)
			if o != "" {
				opts[o] = true
				order = append(order, o)
			}
		}
		if m.Branch(m.isEmptyValue(fr, ft, fv)) {
			if opts["required"] {
				*errs = append(*errs, name+": non zero value required")
			}
			continue
		}
		// pointers: validate the pointee
		vt, vv := ft, fv
		if pt, ok := ft.Underlying().(*types.Pointer); ok {
			vt, vv = pt.Elem(), *(fv.(*Value))
		}
		for _, o := range order {
			if o == "required" || o == "optional" {
				continue
			}
			if !m.runValidator(fr, o, vt, vv) {
				*errs = append(*errs, name+": "+o+" does not validate")
			}
		}
	}
}

func (m *Machine) textOf(fr *frame, t types.Type, v Value) (string, bool) {
	switch x := v.(type) {
	case string, *Str:
		return concreteStr(x)
	case *smt.Term:
		if x.IsConst() && x.W > 0 {
			if isSigned(t) {
				return strconv.FormatInt(x.Signed(), 10), true
			}
			return strconv.FormatUint(x.Val, 10), true
		}
	}
	return "", false
}

func (m *Machine) runValidator(fr *frame, o string, t types.Type, v Value) bool {
	name, param := o, ""
	if i := strings.Index(o, "("); i > 0 && strings.HasSuffix(o, ")") {
		name, param = o[:i], o[i+1:len(o)-1]
	}
	// custom validators registered at run time (govalidator.TagMap)
	if g := m.P.Package(govalidatorPkg); g != nil {
		if tm := g.Var("TagMap"); tm != nil {
			if mp, _ := (*m.global(tm)).(*Map); mp != nil {
				for _, e := range mp.E {
					if k, _ := concreteStr(e.K); k == name && !e.Del {
						r := m.call(e.V, fr, []Value{m.strOfValue(fr, t, v)}).(*smt.Term)
						return m.Branch(r)
					}
				}
			}
		}
	}
	switch name {
	case "type":
		return true
	case "in":
		s := m.strOfValue(fr, t, v)
		for _, alt := range strings.Split(param, "|") {
			if m.Branch(m.strEq(fr, s, alt)) {
				return true
			}
		}
		return false
	case "minstringlength":
		n, _ := strconv.Atoi(param)
		return m.strLen(fr, v) >= n
	case "port":
		if x, ok := v.(*smt.Term); ok {
			x64 := m.toW(x, t, 64)
			return m.Branch(m.C.And(m.C.Slt(m.i64(0), x64), m.C.Slt(x64, m.i64(65536))))
		}
		s, ok := m.textOf(fr, t, v)
		if !ok {
			m.unsupported("govalidator stub: port of a symbolic string")
		}
		n, err := strconv.Atoi(s)
		return err == nil && n > 0 && n < 65536
	case "host", "url", "ip", "ipv4", "dns", "requri":
		m.noteAssumption("govalidator stub: host/url validators approximated (host: non-empty without blanks; url: contains \"://\")")
		s, ok := m.textOf(fr, t, v)
		if !ok {
			m.unsupported("govalidator stub: %s of a symbolic string", name)
		}
		if name == "url" || name == "requri" {
			return strings.Contains(s, "://") && !strings.ContainsAny(s, " \t")
		}
		return s != "" && !strings.ContainsAny(s, " \t/")
	}
	m.unsupported("govalidator stub: validator %q not modelled", o)
	return false
}

func (m *Machine) strOfValue(fr *frame, t types.Type, v Value) Value {
	switch x := v.(type) {
	case string, *Str:
		return x
	case *smt.Term:
		if x.W > 0 {
			return &Str{Dec: m.toW(x, t, 64)}
		}
		if x.IsConst() {
			return strconv.FormatBool(x.IsTrue())
		}
	}
	m.unsupported("govalidator stub: value of type %v as text", t)
	return ""
}

func init() {
	I := intrinsics
	I[govalidatorPkg+".ValidateStruct"] = func(m *Machine, fr *frame, args []Value) Value {
		m.noteAssumption("stub govalidator.ValidateStruct: generated from the valid:\"...\" struct tags of the current source (required/optional/in/type/port/minstringlength, custom TagMap validators executed; host/url approximated)")
		itf := args[0].(Iface)
		if itf.T == nil {
			return Tuple{m.C.False, m.newError("function only accepts structs; got nil")}
		}
		var errs []string
		m.validateStruct(fr, itf.T, itf.V, typeShort(itf.T), &errs)
		if len(errs) == 0 {
			return Tuple{m.C.True, Iface{}}
		}
		et := m.lookupNamed(govalidatorPkg, "Errors")
		cs := &Cells{}
		for _, e := range errs {
			cs.E = append(cs.E, m.newError(e))
		}
		m.events = append(m.events, "validation errors: "+strings.Join(errs, "; "))
		return Tuple{m.C.False, Iface{T: et, V: Slice{A: cs, Len: len(cs.E), Cap: len(cs.E)}}}
	}
	// file / ftp environment of cgf.OpenServer
	I["os.Create"] = func(m *Machine, fr *frame, args []Value) Value {
		return Tuple{m.newOpaquePtr("os.File", nil), Iface{}}
	}
	I["(*os.File).Close"] = func(m *Machine, fr *frame, args []Value) Value { return Iface{} }
	I["encoding/json.NewEncoder"] = func(m *Machine, fr *frame, args []Value) Value { return m.newOpaquePtr("json.Encoder", nil) }
	I["(*encoding/json.Encoder).SetIndent"] = func(m *Machine, fr *frame, args []Value) Value { return nil }
	I["(*encoding/json.Encoder).Encode"] = func(m *Machine, fr *frame, args []Value) Value { return Iface{} }
	I["github.com/fclairamb/ftpserver/config.NewConfig"] = func(m *Machine, fr *frame, args []Value) Value {
		m.noteAssumption("stub ftpserver config.NewConfig: reports an error (the FTP server itself is outside the configuration property)")
		return Tuple{(*Value)(nil), m.newError("ftp server configuration not loaded in the harness")}
	}
	I["runtime/debug.Stack"] = func(m *Machine, fr *frame, args []Value) Value { return m.bytesToSlice(nil) }
	I["runtime/debug.PrintStack"] = func(m *Machine, fr *frame, args []Value) Value { return nil }
	I["(*net/http.Server).ListenAndServe"] = func(m *Machine, fr *frame, args []Value) Value {
		return m.newError("http: Server closed")
	}
	I["(*net/http.Server).ListenAndServeTLS"] = func(m *Machine, fr *frame, args []Value) Value {
		return m.newError("http: Server closed")
	}
	I[diamPkg+".ListenAndServeTLS"] = func(m *Machine, fr *frame, args []Value) Value { return Iface{} }
	I[diamPkg+".ListenAndServe"] = func(m *Machine, fr *frame, args []Value) Value { return Iface{} }
	I["(*github.com/fiorix/go-diameter/diam/dict.Parser).Load"] = func(m *Machine, fr *frame, args []Value) Value { return Iface{} }
	I["bytes.NewReader"] = func(m *Machine, fr *frame, args []Value) Value { return m.newOpaquePtr("bytes.Reader", nil) }
}

func typeShort(t types.Type) string {
	s := t.String()
	if i := strings.LastIndex(s, "."); i >= 0 {
		s = s[i+1:]
	}
	return s
}

var _ = fmt.Sprint
