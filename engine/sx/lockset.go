package sx

import (
	"fmt"
	"go/types"
	"os"
	"sort"
	"strings"
)

// Eraser-style lockset discipline (C09 a). Cells and maps of published
// shared objects are "watched" under a type-derived name; every read/write of
// a watched location records the set of mutexes held. A location with at
// least one write whose accesses have no common lock is reported: for any
// number of threads and any schedule such a location can be raced on.

type watchInfo struct {
	name string
}

type accessSummary struct {
	Name     string
	Common   map[string]bool // nil = no access yet
	Writes   int
	Reads    int
	Unlocked []string // sites of accesses with no lock at all
}

func (m *Machine) watched() map[interface{}]*watchInfo {
	w, _ := m.env["watch"].(map[interface{}]*watchInfo)
	if w == nil {
		w = map[interface{}]*watchInfo{}
		m.env["watch"] = w
	}
	return w
}

// watchStruct registers the fields of the struct in cell p (type t).
func (m *Machine) watchStruct(p *Value, t types.Type, prefix string) {
	st, ok := t.Underlying().(*types.Struct)
	if !ok || p == nil {
		return
	}
	s, ok := (*p).(Struct)
	if !ok {
		return
	}
	w := m.watched()
	for i := 0; i < st.NumFields(); i++ {
		f := st.Field(i)
		name := prefix + "." + f.Name()
		ft := f.Type()
		if isSyncType(ft) {
			// a mutex: name it so that locksets are readable
			m.lockState(&s[i]).name = name
			if f.Embedded() {
				// embedded sync.Mutex: promoted Lock/Unlock use the same cell
			}
			continue
		}
		w[&s[i]] = &watchInfo{name: name}
		if mp, ok := s[i].(*Map); ok && mp != nil {
			w[mp] = &watchInfo{name: name + "[]"}
		}
	}
}

func isSyncType(t types.Type) bool {
	n, ok := t.(*types.Named)
	if !ok || n.Obj().Pkg() == nil {
		return false
	}
	return n.Obj().Pkg().Path() == "sync"
}

func (m *Machine) recordAccess(fr *frame, key interface{}, write bool) {
	wmap, _ := m.env["watch"].(map[interface{}]*watchInfo)
	if wmap == nil {
		return
	}
	wi, ok := wmap[key]
	if !ok {
		return
	}
	// a cell that now holds a map: keep the map object watched too
	// a mutex protects a location only if it belongs to the same object or to
	// the global context: a per-subscriber lock does not serialise accesses to
	// global state made on behalf of different subscribers
	owner := wi.name
	if i := strings.Index(owner, "."); i >= 0 {
		owner = owner[:i]
	}
	held := map[string]bool{}
	for _, l := range m.heldLocks() {
		lo := l.name
		if i := strings.Index(lo, "."); i >= 0 {
			lo = lo[:i]
		}
		if lo == owner || lo == "CHFContext" {
			held[l.name] = true
		}
	}
	acc := m.E.accesses
	if acc == nil {
		acc = map[string]*accessSummary{}
		m.E.accesses = acc
	}
	a := acc[wi.name]
	if a == nil {
		a = &accessSummary{Name: wi.name}
		acc[wi.name] = a
	}
	if a.Common == nil {
		a.Common = held
	} else {
		for k := range a.Common {
			if !held[k] {
				delete(a.Common, k)
			}
		}
	}
	if write {
		a.Writes++
	} else {
		a.Reads++
	}
	if len(held) == 0 && len(a.Unlocked) < 6 {
		site := fr.site()
		kind := "read"
		if write {
			kind = "write"
		}
		s := kind + " at " + site
		dup := false
		for _, u := range a.Unlocked {
			if u == s {
				dup = true
			}
		}
		if !dup {
			a.Unlocked = append(a.Unlocked, s)
		}
	}
}

// LocksetReport lists watched locations that violate the discipline.
func (e *Explorer) LocksetReport() []string {
	var out []string
	var names []string
	for n := range e.accesses {
		names = append(names, n)
	}
	sort.Strings(names)
	for _, n := range names {
		a := e.accesses[n]
		if os.Getenv("GOSX_LOCKDUMP") != "" {
			fmt.Fprintf(os.Stderr, "LOCKDUMP %s reads=%d writes=%d common=%v unlocked=%v\n", n, a.Reads, a.Writes, a.Common, a.Unlocked)
		}
		if a.Writes > 0 && len(a.Common) == 0 && a.Reads+a.Writes > 1 {
			out = append(out, fmt.Sprintf("%s: %d reads, %d writes, no common lock; unlocked accesses: %s", n, a.Reads, a.Writes, strings.Join(a.Unlocked, " | ")))
		}
	}
	return out
}

func init() {
	p := vxPkg + "."
	// Watch(ptr, name): watch the fields of *ptr under name.
	intrinsics[p+"Watch"] = func(m *Machine, fr *frame, args []Value) Value {
		itf := args[0].(Iface)
		ptr, ok := itf.V.(*Value)
		if !ok || ptr == nil {
			return nil
		}
		m.watchStruct(ptr, deref(itf.T), mustStr(args[1]))
		return nil
	}
	// RacyLocations: number of watched locations violating the discipline so far.
	intrinsics[p+"RacyLocations"] = func(m *Machine, fr *frame, args []Value) Value {
		return m.i64(int64(len(m.E.LocksetReport())))
	}
	intrinsics[p+"AssertLockDiscipline"] = func(m *Machine, fr *frame, args []Value) Value {
		for _, r := range m.E.LocksetReport() {
			name := r[:strings.Index(r, ":")]
			key := "assert|lock discipline: " + name + "|" + name
			if _, dup := m.E.Findings[key]; dup {
				continue
			}
			m.Obligation("assert", "lock discipline: "+name, name, m.C.False)
			if f := m.E.Findings[key]; f != nil {
				f.Extra = map[string]string{"accesses": r}
			}
		}
		m.E.Stats.AssertReached["assert|lock discipline checked"]++
		m.E.Stats.AssertProved["assert|lock discipline checked"]++
		return nil
	}
}
