package sx

import (
	"math/rand"
	"testing"

	"gosx/smt"
)

// The exact-integer float model (floatKey) against the host's float64
// conversion, on boundary and random values.
func TestFloatKeyMatchesHost(t *testing.T) {
	c := smt.NewCtx()
	m := &Machine{C: c}
	x := c.Var("x", 64)
	y := c.Var("y", 64)
	kx, ox, _ := m.floatKey(Float{W: 64, Int: x})
	ky, oy, _ := m.floatKey(Float{W: 64, Int: y})
	lt := c.And(c.Not(ox), c.Or(oy, c.Slt(kx, ky)))
	var vals []int64
	for _, e := range []uint{52, 53, 54, 55, 60, 62, 63} {
		for d := int64(-5); d <= 5; d++ {
			v := int64(uint64(1)<<e) + d
			vals = append(vals, v, -v)
		}
	}
	vals = append(vals, 0, 1, -1, 1<<63-1, -1<<63, 1<<63-512, 1<<63-513, 1<<63-511, 9007199254740993, 9007199254740995)
	r := rand.New(rand.NewSource(1))
	for i := 0; i < 20000; i++ {
		v := int64(r.Uint64()) >> uint(r.Intn(12))
		vals = append(vals, v)
	}
	for _, v := range vals {
		env := map[string]uint64{"x": uint64(v)}
		got := int64(smt.Eval(kx, env, map[*smt.Term]uint64{}))
		want := int64(float64(v))
		if float64(v) >= 9223372036854775808.0 {
			want = -1 << 63 // amd64 integer indefinite
		}
		if got != want {
			t.Fatalf("int64(float64(%d)): model %d host %d", v, got, want)
		}
	}
	for i := 0; i+1 < len(vals); i++ {
		a, b := vals[i], vals[i+1]
		env := map[string]uint64{"x": uint64(a), "y": uint64(b)}
		got := smt.Eval(lt, env, map[*smt.Term]uint64{}) != 0
		if want := float64(a) < float64(b); got != want {
			t.Fatalf("float64(%d) < float64(%d): model %v host %v", a, b, got, want)
		}
	}
}
