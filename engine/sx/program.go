package sx

import (
	"crypto/sha256"
	"fmt"
	"go/token"
	"go/types"
	"os"
	"strings"
	"sync"

	"golang.org/x/tools/go/packages"
	"golang.org/x/tools/go/ssa"
	"golang.org/x/tools/go/ssa/ssautil"
)

// Program is the loaded SSA of /repo's working tree plus overlay harnesses.
type Program struct {
	Prog     *ssa.Program
	Pkgs     []*packages.Package
	Fset     *token.FileSet
	byPath   map[string]*ssa.Package
	rtypePtr types.Type
	srcCache map[string][]byte
	srcMu    sync.Mutex
	Overlay  map[string][]byte
}

// Load loads patterns from dir (the repository root) with an overlay.
func Load(dir string, overlay map[string][]byte, patterns ...string) (*Program, error) {
	cfg := &packages.Config{
		Mode:    packages.LoadAllSyntax,
		Dir:     dir,
		Overlay: overlay,
		Env:     append(os.Environ(), "GOFLAGS=-mod=mod", "GOPROXY=off", "GOSUMDB=off", "GOTOOLCHAIN=local"),
	}
	pkgs, err := packages.Load(cfg, patterns...)
	if err != nil {
		return nil, err
	}
	var errs []string
	packages.Visit(pkgs, nil, func(p *packages.Package) {
		for _, e := range p.Errors {
			errs = append(errs, e.Error())
		}
	})
	if len(errs) > 0 {
		return nil, fmt.Errorf("load errors:\n%s", strings.Join(errs, "\n"))
	}
	prog, _ := ssautil.AllPackages(pkgs, ssa.InstantiateGenerics)
	prog.Build()
	p := &Program{Prog: prog, Pkgs: pkgs, byPath: map[string]*ssa.Package{}, srcCache: map[string][]byte{}, Overlay: overlay}
	if len(pkgs) > 0 {
		p.Fset = pkgs[0].Fset
	}
	for _, sp := range prog.AllPackages() {
		p.byPath[sp.Pkg.Path()] = sp
	}
	if rp := p.byPath["reflect"]; rp != nil {
		if o := rp.Pkg.Scope().Lookup("rtype"); o != nil {
			p.rtypePtr = types.NewPointer(o.Type())
		}
	}
	return p, nil
}

func (p *Program) Package(path string) *ssa.Package { return p.byPath[path] }

// Func finds pkgpath.Name.
func (p *Program) Func(pkg, name string) *ssa.Function {
	sp := p.byPath[pkg]
	if sp == nil {
		return nil
	}
	return sp.Func(name)
}

// SrcHash returns a short hash of the source text of fn (for evidence).
func (p *Program) SrcHash(fn *ssa.Function) string {
	if fn.Syntax() == nil || p.Fset == nil {
		return ""
	}
	s := p.Fset.Position(fn.Syntax().Pos())
	e := p.Fset.Position(fn.Syntax().End())
	src := p.source(s.Filename)
	if src == nil || e.Offset > len(src) || s.Offset > e.Offset {
		return ""
	}
	h := sha256.Sum256(src[s.Offset:e.Offset])
	return fmt.Sprintf("%x", h[:6])
}

func (p *Program) source(file string) []byte {
	p.srcMu.Lock()
	defer p.srcMu.Unlock()
	if b, ok := p.srcCache[file]; ok {
		return b
	}
	var b []byte
	if ob, ok := p.Overlay[file]; ok {
		b = ob
	} else {
		b, _ = os.ReadFile(file)
	}
	p.srcCache[file] = b
	return b
}

// ExprText returns the source text at [pos,end) (one line, trimmed) used to
// identify panic sites independently of line numbers.
func (p *Program) ExprText(pos token.Pos) string {
	if !pos.IsValid() || p.Fset == nil {
		return ""
	}
	ps := p.Fset.Position(pos)
	src := p.source(ps.Filename)
	if src == nil || ps.Offset >= len(src) {
		return ""
	}
	// take the whole source line containing pos
	s := ps.Offset
	for s > 0 && src[s-1] != '\n' {
		s--
	}
	e := ps.Offset
	for e < len(src) && src[e] != '\n' {
		e++
	}
	return strings.TrimSpace(string(src[s:e]))
}

func (p *Program) Position(pos token.Pos) string {
	if !pos.IsValid() || p.Fset == nil {
		return "?"
	}
	ps := p.Fset.Position(pos)
	return fmt.Sprintf("%s:%d", ps.Filename, ps.Line)
}

// FindFunc finds a package-level function by "pkgpath.Name" or bare Name
// (searched in all packages of the main module).
func (p *Program) FindFunc(name string) *ssa.Function {
	if i := strings.LastIndex(name, "."); i >= 0 {
		if f := p.Func(name[:i], name[i+1:]); f != nil {
			return f
		}
	}
	for path, sp := range p.byPath {
		if strings.HasPrefix(path, "github.com/free5gc/chf") {
			if f := sp.Func(name); f != nil {
				return f
			}
		}
	}
	return nil
}
