package sx

import (
	"fmt"
	"go/types"
	"reflect"

	"gosx/smt"
)

// Model of the parts of package reflect used by the code under test.
// Types are always concrete (go/types); only leaf values are symbolic.

func kindOf(t types.Type) reflect.Kind {
	switch u := t.Underlying().(type) {
	case *types.Basic:
		switch u.Kind() {
		case types.Bool:
			return reflect.Bool
		case types.Int:
			return reflect.Int
		case types.Int8:
			return reflect.Int8
		case types.Int16:
			return reflect.Int16
		case types.Int32:
			return reflect.Int32
		case types.Int64:
			return reflect.Int64
		case types.Uint:
			return reflect.Uint
		case types.Uint8:
			return reflect.Uint8
		case types.Uint16:
			return reflect.Uint16
		case types.Uint32:
			return reflect.Uint32
		case types.Uint64:
			return reflect.Uint64
		case types.Uintptr:
			return reflect.Uintptr
		case types.Float32:
			return reflect.Float32
		case types.Float64:
			return reflect.Float64
		case types.Complex64:
			return reflect.Complex64
		case types.Complex128:
			return reflect.Complex128
		case types.String:
			return reflect.String
		case types.UnsafePointer:
			return reflect.UnsafePointer
		}
	case *types.Array:
		return reflect.Array
	case *types.Chan:
		return reflect.Chan
	case *types.Signature:
		return reflect.Func
	case *types.Interface:
		return reflect.Interface
	case *types.Map:
		return reflect.Map
	case *types.Pointer:
		return reflect.Ptr
	case *types.Slice:
		return reflect.Slice
	case *types.Struct:
		return reflect.Struct
	}
	panic(fmt.Sprintf("kindOf %v", t))
}

func (m *Machine) rtypeIface(t types.Type) Value {
	if t == nil {
		return Iface{}
	}
	return Iface{T: m.P.rtypePtr, V: RType{T: t}}
}

func (m *Machine) reflectPanic(fr *frame, msg string) {
	panic(&GoPanic{Class: "reflect panic", Site: fr.site(), Msg: msg})
}

func (m *Machine) mustKind(fr *frame, v RValue, meth string, ks ...reflect.Kind) reflect.Kind {
	if v.T == nil {
		m.reflectPanic(fr, "reflect: call of reflect.Value."+meth+" on zero Value")
	}
	k := kindOf(v.T)
	for _, x := range ks {
		if x == k {
			return k
		}
	}
	m.reflectPanic(fr, "reflect: call of reflect.Value."+meth+" on "+k.String()+" Value")
	return k
}

func (m *Machine) mustSettable(fr *frame, v RValue, meth string) {
	if v.T == nil {
		m.reflectPanic(fr, "reflect: call of reflect.Value."+meth+" on zero Value")
	}
	if v.Addr == nil || !v.Settable {
		m.reflectPanic(fr, "reflect: reflect.Value."+meth+" using unaddressable value")
	}
}

func isNilValue(v Value) bool {
	switch x := v.(type) {
	case *Value:
		return x == nil
	case Slice:
		return x.A == nil
	case *Map:
		return x == nil
	case *Chan:
		return x == nil
	case Iface:
		return x.T == nil
	case nil:
		return true
	}
	if f, ok := v.(interface{ isNilFunc() bool }); ok {
		return f.isNilFunc()
	}
	return false
}

func registerReflect() {
	I := intrinsics
	I["reflect.ValueOf"] = func(m *Machine, fr *frame, args []Value) Value {
		itf := args[0].(Iface)
		if itf.T == nil {
			return RValue{}
		}
		return RValue{T: itf.T, V: itf.V}
	}
	I["reflect.TypeOf"] = func(m *Machine, fr *frame, args []Value) Value {
		return m.rtypeIface(args[0].(Iface).T)
	}
	I["reflect.New"] = func(m *Machine, fr *frame, args []Value) Value {
		t := args[0].(Iface).V.(RType).T
		p := new(Value)
		*p = m.zero(t)
		return RValue{T: types.NewPointer(t), V: p}
	}
	I["reflect.Zero"] = func(m *Machine, fr *frame, args []Value) Value {
		t := args[0].(Iface).V.(RType).T
		return RValue{T: t, V: m.zero(t)}
	}
	I["reflect.Indirect"] = func(m *Machine, fr *frame, args []Value) Value {
		v := args[0].(RValue)
		if v.T == nil || kindOf(v.T) != reflect.Ptr {
			return v
		}
		return I["(reflect.Value).Elem"](m, fr, args)
	}
	I["reflect.MakeSlice"] = func(m *Machine, fr *frame, args []Value) Value {
		t := args[0].(Iface).V.(RType).T
		st, ok := t.Underlying().(*types.Slice)
		if !ok {
			m.reflectPanic(fr, "reflect.MakeSlice of non-slice type")
		}
		ln := m.concreteInt(fr, args[1], "MakeSlice len", 1<<16)
		cp := m.concreteInt(fr, args[2], "MakeSlice cap", 1<<16)
		if ln < 0 || cp < ln {
			m.reflectPanic(fr, "reflect.MakeSlice: bad len/cap")
		}
		cells := m.newCells(cp, func() Value { return m.zero(st.Elem()) })
		return RValue{T: t, V: Slice{A: cells, Len: ln, Cap: cp}}
	}
	I["reflect.DeepEqual"] = func(m *Machine, fr *frame, args []Value) Value {
		a, b := args[0].(Iface), args[1].(Iface)
		if a.T == nil || b.T == nil {
			return m.C.Bool(a.T == nil && b.T == nil)
		}
		if !types.Identical(a.T, b.T) {
			return m.C.False
		}
		return m.deepEqual(fr, a.T, a.V, b.V, 0)
	}
	I["(reflect.Value).IsValid"] = func(m *Machine, fr *frame, args []Value) Value {
		return m.C.Bool(args[0].(RValue).T != nil)
	}
	I["(reflect.Value).Kind"] = func(m *Machine, fr *frame, args []Value) Value {
		v := args[0].(RValue)
		if v.T == nil {
			return m.C.Const(0, 64)
		}
		return m.C.Const(uint64(kindOf(v.T)), 64)
	}
	I["(reflect.Value).Type"] = func(m *Machine, fr *frame, args []Value) Value {
		v := args[0].(RValue)
		if v.T == nil {
			m.reflectPanic(fr, "reflect: call of reflect.Value.Type on zero Value")
		}
		return m.rtypeIface(v.T)
	}
	I["(reflect.Value).Elem"] = func(m *Machine, fr *frame, args []Value) Value {
		v := args[0].(RValue)
		k := m.mustKind(fr, v, "Elem", reflect.Ptr, reflect.Interface)
		if k == reflect.Ptr {
			p := v.get().(*Value)
			if p == nil {
				return RValue{}
			}
			return RValue{T: v.T.Underlying().(*types.Pointer).Elem(), Addr: p, Settable: true}
		}
		itf := v.get().(Iface)
		if itf.T == nil {
			return RValue{}
		}
		return RValue{T: itf.T, V: itf.V}
	}
	I["(reflect.Value).IsNil"] = func(m *Machine, fr *frame, args []Value) Value {
		v := args[0].(RValue)
		m.mustKind(fr, v, "IsNil", reflect.Chan, reflect.Func, reflect.Interface, reflect.Map, reflect.Ptr, reflect.Slice, reflect.UnsafePointer)
		return m.C.Bool(isNilValue(v.get()))
	}
	I["(reflect.Value).IsZero"] = func(m *Machine, fr *frame, args []Value) Value {
		v := args[0].(RValue)
		if v.T == nil {
			m.reflectPanic(fr, "reflect: call of reflect.Value.IsZero on zero Value")
		}
		return m.deepEqual(fr, v.T, v.get(), m.zero(v.T), 0)
	}
	I["(reflect.Value).Interface"] = func(m *Machine, fr *frame, args []Value) Value {
		v := args[0].(RValue)
		if v.T == nil {
			m.reflectPanic(fr, "reflect: call of reflect.Value.Interface on zero Value")
		}
		if _, ok := v.T.Underlying().(*types.Interface); ok {
			return v.get().(Iface)
		}
		return Iface{T: v.T, V: copyVal(v.get())}
	}
	I["(reflect.Value).Bool"] = func(m *Machine, fr *frame, args []Value) Value {
		v := args[0].(RValue)
		m.mustKind(fr, v, "Bool", reflect.Bool)
		return v.get()
	}
	I["(reflect.Value).Int"] = func(m *Machine, fr *frame, args []Value) Value {
		v := args[0].(RValue)
		m.mustKind(fr, v, "Int", reflect.Int, reflect.Int8, reflect.Int16, reflect.Int32, reflect.Int64)
		return m.C.Sext(v.get().(*smt.Term), 64)
	}
	I["(reflect.Value).Uint"] = func(m *Machine, fr *frame, args []Value) Value {
		v := args[0].(RValue)
		m.mustKind(fr, v, "Uint", reflect.Uint, reflect.Uint8, reflect.Uint16, reflect.Uint32, reflect.Uint64, reflect.Uintptr)
		return m.C.Zext(v.get().(*smt.Term), 64)
	}
	I["(reflect.Value).String"] = func(m *Machine, fr *frame, args []Value) Value {
		v := args[0].(RValue)
		if v.T == nil {
			return "<invalid Value>"
		}
		if kindOf(v.T) != reflect.String {
			return "<" + v.T.String() + " Value>"
		}
		return v.get()
	}
	I["(reflect.Value).Bytes"] = func(m *Machine, fr *frame, args []Value) Value {
		v := args[0].(RValue)
		m.mustKind(fr, v, "Bytes", reflect.Slice)
		return v.get()
	}
	I["(reflect.Value).Len"] = func(m *Machine, fr *frame, args []Value) Value {
		v := args[0].(RValue)
		k := m.mustKind(fr, v, "Len", reflect.Slice, reflect.Array, reflect.String, reflect.Map, reflect.Chan)
		switch k {
		case reflect.Slice:
			return m.i64(int64(v.get().(Slice).Len))
		case reflect.Array:
			return m.i64(int64(len(v.get().(Array))))
		case reflect.String:
			return m.i64(int64(m.strLen(fr, v.get())))
		case reflect.Map:
			mp := v.get().(*Map)
			if mp == nil {
				return m.i64(0)
			}
			return m.i64(int64(mp.length()))
		}
		return m.i64(0)
	}
	I["(reflect.Value).NumField"] = func(m *Machine, fr *frame, args []Value) Value {
		v := args[0].(RValue)
		m.mustKind(fr, v, "NumField", reflect.Struct)
		return m.i64(int64(v.T.Underlying().(*types.Struct).NumFields()))
	}
	I["(reflect.Value).Field"] = func(m *Machine, fr *frame, args []Value) Value {
		v := args[0].(RValue)
		m.mustKind(fr, v, "Field", reflect.Struct)
		st := v.T.Underlying().(*types.Struct)
		it := args[1].(*smt.Term)
		fr.require("reflect panic", m.C.Ult(it, m.i64(int64(st.NumFields()))))
		i := int(m.Concretize(it, st.NumFields()+1))
		ft := st.Field(i).Type()
		if v.Addr != nil {
			return RValue{T: ft, Addr: &(*v.Addr).(Struct)[i], Settable: v.Settable && st.Field(i).Exported()}
		}
		return RValue{T: ft, V: v.V.(Struct)[i]}
	}
	I["(reflect.Value).Index"] = func(m *Machine, fr *frame, args []Value) Value {
		v := args[0].(RValue)
		k := m.mustKind(fr, v, "Index", reflect.Slice, reflect.Array, reflect.String)
		it := args[1].(*smt.Term)
		switch k {
		case reflect.Slice:
			s := v.get().(Slice)
			fr.require("reflect panic", m.C.Ult(it, m.i64(int64(s.Len))))
			i := int(m.Concretize(it, s.Len+1))
			return RValue{T: v.T.Underlying().(*types.Slice).Elem(), Addr: s.at(i), Settable: true}
		case reflect.Array:
			at := v.T.Underlying().(*types.Array)
			fr.require("reflect panic", m.C.Ult(it, m.i64(at.Len())))
			i := int(m.Concretize(it, int(at.Len())+1))
			if v.Addr != nil {
				return RValue{T: at.Elem(), Addr: &(*v.Addr).(Array)[i], Settable: v.Settable}
			}
			return RValue{T: at.Elem(), V: v.V.(Array)[i]}
		}
		m.unsupported("reflect.Value.Index on string")
		return nil
	}
	I["(reflect.Value).Set"] = func(m *Machine, fr *frame, args []Value) Value {
		v := args[0].(RValue)
		x := args[1].(RValue)
		m.mustSettable(fr, v, "Set")
		if x.T == nil {
			m.reflectPanic(fr, "reflect: call of reflect.Value.Set on zero Value")
		}
		if it, ok := v.T.Underlying().(*types.Interface); ok {
			if _, xi := x.T.Underlying().(*types.Interface); xi {
				store(v.Addr, x.get())
				return nil
			}
			if !m.implements(x.T, it) {
				m.reflectPanic(fr, "reflect.Set: value of type "+x.T.String()+" is not assignable to type "+v.T.String())
			}
			store(v.Addr, Iface{T: x.T, V: copyVal(x.get())})
			return nil
		}
		if !types.AssignableTo(x.T, v.T) || (!types.Identical(x.T, v.T) && isNamed(x.T) && isNamed(v.T)) {
			m.reflectPanic(fr, "reflect.Set: value of type "+x.T.String()+" is not assignable to type "+v.T.String())
		}
		store(v.Addr, copyVal(x.get()))
		return nil
	}
	I["(reflect.Value).SetBool"] = func(m *Machine, fr *frame, args []Value) Value {
		v := args[0].(RValue)
		m.mustSettable(fr, v, "SetBool")
		m.mustKind(fr, v, "SetBool", reflect.Bool)
		store(v.Addr, args[1])
		return nil
	}
	I["(reflect.Value).SetInt"] = func(m *Machine, fr *frame, args []Value) Value {
		v := args[0].(RValue)
		m.mustSettable(fr, v, "SetInt")
		m.mustKind(fr, v, "SetInt", reflect.Int, reflect.Int8, reflect.Int16, reflect.Int32, reflect.Int64)
		w := intWidth(v.T.Underlying().(*types.Basic))
		store(v.Addr, m.C.Extract(args[1].(*smt.Term), w-1, 0))
		return nil
	}
	I["(reflect.Value).SetUint"] = func(m *Machine, fr *frame, args []Value) Value {
		v := args[0].(RValue)
		m.mustSettable(fr, v, "SetUint")
		m.mustKind(fr, v, "SetUint", reflect.Uint, reflect.Uint8, reflect.Uint16, reflect.Uint32, reflect.Uint64, reflect.Uintptr)
		w := intWidth(v.T.Underlying().(*types.Basic))
		store(v.Addr, m.C.Extract(args[1].(*smt.Term), w-1, 0))
		return nil
	}
	I["(reflect.Value).SetString"] = func(m *Machine, fr *frame, args []Value) Value {
		v := args[0].(RValue)
		m.mustSettable(fr, v, "SetString")
		m.mustKind(fr, v, "SetString", reflect.String)
		store(v.Addr, args[1])
		return nil
	}
	I["(reflect.Value).SetBytes"] = func(m *Machine, fr *frame, args []Value) Value {
		v := args[0].(RValue)
		m.mustSettable(fr, v, "SetBytes")
		m.mustKind(fr, v, "SetBytes", reflect.Slice)
		store(v.Addr, args[1])
		return nil
	}
	I["(reflect.Value).CanSet"] = func(m *Machine, fr *frame, args []Value) Value {
		v := args[0].(RValue)
		return m.C.Bool(v.Addr != nil && v.Settable)
	}
	I["(reflect.Value).CanAddr"] = func(m *Machine, fr *frame, args []Value) Value {
		return m.C.Bool(args[0].(RValue).Addr != nil)
	}
	I["(reflect.Value).CanInterface"] = func(m *Machine, fr *frame, args []Value) Value { return m.C.True }
	I["(reflect.Value).Addr"] = func(m *Machine, fr *frame, args []Value) Value {
		v := args[0].(RValue)
		if v.Addr == nil {
			m.reflectPanic(fr, "reflect.Value.Addr of unaddressable value")
		}
		return RValue{T: types.NewPointer(v.T), V: v.Addr}
	}
	I["(reflect.StructTag).Get"] = func(m *Machine, fr *frame, args []Value) Value {
		tag, ok1 := concreteStr(args[0])
		key, ok2 := concreteStr(args[1])
		if !ok1 || !ok2 {
			m.unsupported("symbolic struct tag")
		}
		return reflect.StructTag(tag).Get(key)
	}
	I["(reflect.StructTag).Lookup"] = func(m *Machine, fr *frame, args []Value) Value {
		tag, _ := concreteStr(args[0])
		key, _ := concreteStr(args[1])
		s, ok := reflect.StructTag(tag).Lookup(key)
		return Tuple{s, m.C.Bool(ok)}
	}
	I["(reflect.Kind).String"] = func(m *Machine, fr *frame, args []Value) Value {
		return reflect.Kind(mustInt(args[0])).String()
	}
}

func isNamed(t types.Type) bool {
	_, ok := t.(*types.Named)
	return ok
}

func (m *Machine) rtypeMethod(fr *frame, name string, rt RType, args []Value) Value {
	t := rt.T
	switch name {
	case "Kind":
		return m.C.Const(uint64(kindOf(t)), 64)
	case "String":
		return types.TypeString(t, func(p *types.Package) string { return p.Name() })
	case "Name":
		if n, ok := t.(*types.Named); ok {
			return n.Obj().Name()
		}
		if b, ok := t.(*types.Basic); ok {
			return b.Name()
		}
		return ""
	case "PkgPath":
		if n, ok := t.(*types.Named); ok && n.Obj().Pkg() != nil {
			return n.Obj().Pkg().Path()
		}
		return ""
	case "Elem":
		switch u := t.Underlying().(type) {
		case *types.Pointer:
			return m.rtypeIface(u.Elem())
		case *types.Slice:
			return m.rtypeIface(u.Elem())
		case *types.Array:
			return m.rtypeIface(u.Elem())
		case *types.Map:
			return m.rtypeIface(u.Elem())
		case *types.Chan:
			return m.rtypeIface(u.Elem())
		}
		m.reflectPanic(fr, "reflect: Elem of invalid type "+t.String())
	case "Key":
		if u, ok := t.Underlying().(*types.Map); ok {
			return m.rtypeIface(u.Key())
		}
		m.reflectPanic(fr, "reflect: Key of non-map type "+t.String())
	case "Len":
		if u, ok := t.Underlying().(*types.Array); ok {
			return m.i64(u.Len())
		}
		m.reflectPanic(fr, "reflect: Len of non-array type "+t.String())
	case "NumField":
		st, ok := t.Underlying().(*types.Struct)
		if !ok {
			m.reflectPanic(fr, "reflect: NumField of non-struct type "+t.String())
		}
		return m.i64(int64(st.NumFields()))
	case "NumMethod":
		if it, ok := t.Underlying().(*types.Interface); ok {
			return m.i64(int64(it.NumMethods()))
		}
		ms := m.P.Prog.MethodSets.MethodSet(t)
		n := 0
		for i := 0; i < ms.Len(); i++ {
			if ms.At(i).Obj().Exported() {
				n++
			}
		}
		return m.i64(int64(n))
	case "Field":
		st, ok := t.Underlying().(*types.Struct)
		if !ok {
			m.reflectPanic(fr, "reflect: Field of non-struct type "+t.String())
		}
		it := args[0].(*smt.Term)
		cond := m.C.Ult(it, m.i64(int64(st.NumFields())))
		if !cond.IsTrue() {
			if cond.IsFalse() || !m.Branch(cond) {
				m.reflectPanic(fr, "reflect: Field index out of bounds")
			}
		}
		i := int(m.Concretize(it, st.NumFields()+1))
		return m.structField(st, i)
	case "Comparable":
		return m.C.Bool(types.Comparable(t))
	case "AssignableTo":
		return m.C.Bool(types.AssignableTo(t, args[0].(Iface).V.(RType).T))
	case "ConvertibleTo":
		return m.C.Bool(types.ConvertibleTo(t, args[0].(Iface).V.(RType).T))
	case "Implements":
		it, ok := args[0].(Iface).V.(RType).T.Underlying().(*types.Interface)
		if !ok {
			m.reflectPanic(fr, "reflect: non-interface type passed to Type.Implements")
		}
		return m.C.Bool(m.implements(t, it))
	}
	m.unsupported("reflect.Type.%s", name)
	return nil
}

// structField builds a reflect.StructField value.
func (m *Machine) structField(st *types.Struct, i int) Value {
	f := st.Field(i)
	sfT := m.P.Package("reflect").Pkg.Scope().Lookup("StructField").Type().Underlying().(*types.Struct)
	out := make(Struct, sfT.NumFields())
	for k := 0; k < sfT.NumFields(); k++ {
		ff := sfT.Field(k)
		switch ff.Name() {
		case "Name":
			out[k] = f.Name()
		case "PkgPath":
			if f.Exported() {
				out[k] = ""
			} else if f.Pkg() != nil {
				out[k] = f.Pkg().Path()
			} else {
				out[k] = "?"
			}
		case "Type":
			out[k] = m.rtypeIface(f.Type())
		case "Tag":
			out[k] = st.Tag(i)
		case "Anonymous":
			out[k] = m.C.Bool(f.Embedded())
		default:
			out[k] = m.zero(ff.Type())
		}
	}
	return out
}

// deepEqual: structural equality as a term (nil and empty slices differ as in
// reflect.DeepEqual; pointers compared by pointee).
func (m *Machine) deepEqual(fr *frame, t types.Type, a, b Value, depth int) *smt.Term {
	c := m.C
	if depth > 60 {
		m.unsupported("deepEqual: depth")
	}
	if m.env["snapshotEq"] == true {
		if n, ok := t.(*types.Named); ok && n.Obj().Pkg() != nil && n.Obj().Pkg().Path() == "sync" {
			return c.True // lock state is asserted separately (vx.LocksHeld)
		}
		if _, ok := a.(*Opaque); ok {
			return c.True
		}
	}
	switch u := t.Underlying().(type) {
	case *types.Basic:
		return m.equals(fr, t, a, b)
	case *types.Pointer:
		pa, pb := a.(*Value), b.(*Value)
		if pa == nil || pb == nil {
			return c.Bool(pa == nil && pb == nil)
		}
		if pa == pb {
			return c.True
		}
		return m.deepEqual(fr, u.Elem(), *pa, *pb, depth+1)
	case *types.Struct:
		sa, sb := a.(Struct), b.(Struct)
		r := c.True
		for i := range sa {
			r = c.And(r, m.deepEqual(fr, u.Field(i).Type(), sa[i], sb[i], depth+1))
			if r.IsFalse() {
				return r
			}
		}
		return r
	case *types.Array:
		sa, sb := a.(Array), b.(Array)
		r := c.True
		for i := range sa {
			r = c.And(r, m.deepEqual(fr, u.Elem(), sa[i], sb[i], depth+1))
		}
		return r
	case *types.Slice:
		sa, sb := a.(Slice), b.(Slice)
		if (sa.A == nil) != (sb.A == nil) && !(m.env["nilEqEmpty"] == true) {
			return c.False
		}
		if sa.Len != sb.Len {
			return c.False
		}
		r := c.True
		for i := 0; i < sa.Len; i++ {
			r = c.And(r, m.deepEqual(fr, u.Elem(), *sa.at(i), *sb.at(i), depth+1))
			if r.IsFalse() {
				return r
			}
		}
		return r
	case *types.Interface:
		ia, ib := a.(Iface), b.(Iface)
		if ia.T == nil || ib.T == nil {
			return c.Bool(ia.T == nil && ib.T == nil)
		}
		if !types.Identical(ia.T, ib.T) {
			return c.False
		}
		return m.deepEqual(fr, ia.T, ia.V, ib.V, depth+1)
	case *types.Map:
		ma, mb := a.(*Map), b.(*Map)
		if ma == nil || mb == nil {
			return c.Bool(ma == nil && mb == nil)
		}
		if ma == mb {
			return c.True
		}
		// same live keys with deeply equal values (both directions)
		incl := func(x, y *Map) *smt.Term {
			r := c.True
			for _, ex := range x.E {
				if ex.Del {
					continue
				}
				some := c.False
				for _, ey := range y.E {
					if ey.Del {
						continue
					}
					some = c.Or(some, c.And(m.equals(fr, u.Key(), ex.K, ey.K), m.deepEqual(fr, u.Elem(), ex.V, ey.V, depth+1)))
				}
				r = c.And(r, some)
			}
			return r
		}
		return c.And(incl(ma, mb), incl(mb, ma))
	case *types.Chan, *types.Signature:
		if m.env["snapshotEq"] == true {
			return c.True // channels and functions are not part of a state snapshot
		}
	}
	if m.env["snapshotEq"] == true {
		if _, ok := a.(*Opaque); ok {
			return c.True
		}
		if n, ok := t.(*types.Named); ok && n.Obj().Pkg() != nil && n.Obj().Pkg().Path() == "sync" {
			return c.True // lock state is asserted separately (vx.LocksHeld)
		}
	}
	return m.equals(fr, t, a, b)
}
