package sx

import (
	"fmt"
	"go/types"

	"golang.org/x/tools/go/ssa"
)

// Cooperative scheduler (DESIGN Part II §2.7, built late): interpreted
// threads are hosted on Go goroutines but only one runs at a time; at every
// scheduling point (mutex lock/unlock, sync.Map operation, channel operation,
// select, thread start/exit) the next thread to run is a forked choice, so
// the depth-first exploration enumerates interleavings with symbolic data.
// Sequentially consistent interleavings at that granularity only; the number
// of voluntary context switches per path is bounded (Options "preempt").

type thread struct {
	id      int
	resume  chan bool // false = the path is over: unwind
	done    bool
	started bool
	blocked func() bool // nil = runnable; otherwise runnable when it returns true
	fn      Value
	args    []Value
	why     string
}

type killThread struct{}

type schedState struct {
	threads   []*thread
	cur       *thread
	switches  int
	maxSwitch int
	abort     interface{} // panic value raised in a non-main thread, re-raised in the main one
}

func (m *Machine) sched() *schedState {
	s, _ := m.env["sched"].(*schedState)
	return s
}

// schedOn starts scheduling for this path; the calling goroutine is thread 0.
func (m *Machine) schedOn(maxSwitch int) *schedState {
	if s := m.sched(); s != nil {
		return s
	}
	main := &thread{id: 0, resume: make(chan bool), started: true}
	s := &schedState{threads: []*thread{main}, cur: main, maxSwitch: maxSwitch}
	m.env["sched"] = s
	return s
}

func (s *schedState) runnable(t *thread) bool {
	if t.done {
		return false
	}
	return t.blocked == nil || t.blocked()
}

// spawn creates a thread that will run fn(args).
func (m *Machine) spawn(fn Value, args []Value) *thread {
	s := m.sched()
	t := &thread{id: len(s.threads), resume: make(chan bool), fn: fn, args: args}
	s.threads = append(s.threads, t)
	go func() {
		if ok := <-t.resume; !ok {
			return
		}
		t.started = true
		defer func() {
			r := recover()
			t.done = true
			if _, killed := r.(killThread); killed {
				return
			}
			if r != nil {
				// a Go panic in a goroutine crashes the process; an engine abort
				// ends the path: both are re-raised in the main thread
				s.abort = r
				main := s.threads[0]
				s.cur = main
				main.resume <- true
				return
			}
			m.threadExit(t)
		}()
		m.call(fn, nil, args)
	}()
	return t
}

// threadExit hands control to another thread when t has finished.
func (m *Machine) threadExit(t *thread) {
	s := m.sched()
	var cand []*thread
	for _, o := range s.threads {
		if o != t && s.runnable(o) {
			cand = append(cand, o)
		}
	}
	if len(cand) == 0 {
		// everything else is blocked: report through the main thread
		s.abort = pathAbort{abBlocked, "deadlock: every remaining thread is blocked (" + m.blockedWhy() + ")"}
		main := s.threads[0]
		s.cur = main
		main.resume <- true
		return
	}
	func() {
		defer func() {
			if r := recover(); r != nil {
				s.abort = r
				main := s.threads[0]
				s.cur = main
				main.resume <- true
			}
		}()
		nxt := cand[m.Choose(len(cand))]
		s.cur = nxt
		nxt.resume <- true
	}()
}

func (m *Machine) blockedWhy() string {
	s := m.sched()
	out := ""
	for _, t := range s.threads {
		if !t.done && t.blocked != nil {
			out += fmt.Sprintf("thread %d: %s; ", t.id, t.why)
		}
	}
	return out
}

// yield is a scheduling point of the current thread. blocked == nil: the
// thread could continue (a voluntary switch counts against the budget).
func (m *Machine) yield(blocked func() bool, why string) {
	s := m.sched()
	if s == nil {
		if blocked != nil && !blocked() {
			m.abort(abBlocked, "%s", why)
		}
		return
	}
	t := s.cur
	t.blocked, t.why = blocked, why
	var cand []*thread
	for _, o := range s.threads {
		if s.runnable(o) {
			cand = append(cand, o)
		}
	}
	if len(cand) == 0 {
		m.abort(abBlocked, "deadlock: every thread is blocked (%s)", m.blockedWhy())
	}
	selfOK := s.runnable(t)
	var nxt *thread
	if selfOK && (len(cand) == 1 || s.switches >= s.maxSwitch) {
		nxt = t
	} else {
		nxt = cand[m.Choose(len(cand))]
		if selfOK && nxt != t {
			s.switches++
		}
	}
	if nxt != t {
		s.cur = nxt
		nxt.resume <- true
		if ok := <-t.resume; !ok {
			panic(killThread{})
		}
		if t.id == 0 && s.abort != nil {
			a := s.abort
			s.abort = nil
			panic(a)
		}
	}
	t.blocked, t.why = nil, ""
}

// schedKill unwinds every parked thread at the end of a path.
func (m *Machine) schedKill() {
	s := m.sched()
	if s == nil {
		return
	}
	for _, t := range s.threads[1:] {
		if !t.done {
			t.done = true
			t.resume <- false
		}
	}
	delete(m.env, "sched")
}

func init() {
	p := vxPkg + "."
	// Parallel(f, g, ...) runs the functions as concurrent threads under
	// every interleaving (within the switch budget) and returns when all
	// have finished.
	intrinsics[p+"Parallel"] = func(m *Machine, fr *frame, args []Value) Value {
		budget := 3
		if v, ok := m.E.Opt.Params["preempt"]; ok {
			fmt.Sscan(v, &budget)
		}
		s := m.schedOn(budget)
		var ts []*thread
		for _, f := range variadic(args[0]) {
			ts = append(ts, m.spawn(f, nil))
		}
		m.yield(func() bool {
			for _, t := range ts {
				if !t.done {
					return false
				}
			}
			return true
		}, "waiting for parallel threads")
		_ = s
		return nil
	}
	// Quiesce lets every other thread run until it has finished or is blocked
	// for good (goroutines the code under test left behind complete their work).
	intrinsics[p+"Quiesce"] = func(m *Machine, fr *frame, args []Value) Value {
		s := m.sched()
		if s == nil {
			return nil
		}
		me := s.cur
		m.yield(func() bool {
			for _, t := range s.threads {
				if t != me && s.runnable(t) {
					return false
				}
			}
			return true
		}, "waiting for background threads")
		return nil
	}
	intrinsics[p+"Scheduler"] = func(m *Machine, fr *frame, args []Value) Value {
		m.schedOn(mustInt(args[0]))
		m.env["cfg:go.threads"] = true
		return nil
	}
}

// goThread: with the scheduler on, go statements start real threads.
func (m *Machine) goThread(fn Value, args []Value) bool {
	if m.sched() == nil || !m.cfg("go.threads") {
		return false
	}
	m.spawn(fn, args)
	m.yield(nil, "")
	return true
}

var _ = types.Typ
var _ *ssa.Function
