package sx

import (
	"fmt"
	"go/token"
	"go/types"
	"math"
	"net/url"
	"os"
	"reflect"
	"strconv"
	"strings"

	"golang.org/x/tools/go/ssa"

	"gosx/smt"
)

type NativeFn func(m *Machine, fr *frame, args []Value) Value

const vxPkg = "github.com/free5gc/chf/zzvx"

var errType = types.NewNamed(types.NewTypeName(token.NoPos, nil, "gosx.error", nil), types.NewStruct(nil, nil), nil)

func (m *Machine) newError(msg string) Value {
	return Iface{T: errType, V: &Opaque{Kind: "error", Data: msg}}
}

var intrinsics = map[string]NativeFn{}

// pure functions on concrete arguments, evaluated natively
var concreteOnly = map[string]interface{}{}

func init() {
	registerVX()
	registerReflect()
	registerStd()
}

// noOpPkgs: every function of these packages is a no-op returning zero values.
var noOpPkgs = []string{
	"github.com/sirupsen/logrus",
	"github.com/free5gc/chf/internal/logger",
	"log",
	"github.com/free5gc/util/logger",
}

func (m *Machine) lookupIntrinsic(fn *ssa.Function, args []Value) NativeFn {
	name := fn.String()
	if f, ok := intrinsics[name]; ok {
		return f
	}
	if o := fn.Origin(); o != nil {
		if f, ok := intrinsics[o.String()]; ok {
			return f
		}
	}
	if fn.Pkg != nil {
		pp := fn.Pkg.Pkg.Path()
		for _, p := range noOpPkgs {
			if pp == p {
				return func(m *Machine, fr *frame, args []Value) Value { return m.zeroResult(fn) }
			}
		}
	} else if fn.Signature.Recv() != nil {
		// method of a type from a no-op package (wrappers etc.)
		if p := recvPkg(fn); p != "" {
			for _, q := range noOpPkgs {
				if p == q {
					return func(m *Machine, fr *frame, args []Value) Value { return m.zeroResult(fn) }
				}
			}
		}
	}
	return nil
}

func recvPkg(fn *ssa.Function) string {
	r := fn.Signature.Recv()
	if r == nil {
		return ""
	}
	t := r.Type()
	if p, ok := t.(*types.Pointer); ok {
		t = p.Elem()
	}
	if n, ok := t.(*types.Named); ok && n.Obj().Pkg() != nil {
		return n.Obj().Pkg().Path()
	}
	return ""
}

func (m *Machine) zeroResult(fn *ssa.Function) Value {
	res := fn.Signature.Results()
	switch res.Len() {
	case 0:
		return nil
	case 1:
		return m.zero(res.At(0).Type())
	}
	return m.zero(res)
}

// fakeMethod resolves interface method calls on engine-native values.
func (m *Machine) fakeMethod(recv Iface, meth *types.Func) Value {
	switch v := recv.V.(type) {
	case RType:
		name := meth.Name()
		return &Native{Name: "reflect.Type." + name, Fn: func(m *Machine, fr *frame, args []Value) Value {
			return m.rtypeMethod(fr, name, args[0].(RType), args[1:])
		}}
	case *Opaque:
		switch v.Kind {
		case "error", "runtime.Error":
			if meth.Name() == "Error" {
				return &Native{Name: "error.Error", Fn: func(m *Machine, fr *frame, args []Value) Value {
					s, _ := v.Data.(string)
					return s
				}}
			}
			if meth.Name() == "RuntimeError" {
				return &Native{Name: "RuntimeError", Fn: func(m *Machine, fr *frame, args []Value) Value { return nil }}
			}
		}
		if f := m.opaqueMethod(v, meth); f != nil {
			return f
		}
	}
	return nil
}

func (m *Machine) fakeImplements(itf Iface, it *types.Interface) bool {
	if o, ok := itf.V.(*Opaque); ok {
		if o.Kind == "error" || o.Kind == "runtime.Error" {
			return it.NumMethods() == 1 && it.Method(0).Name() == "Error"
		}
	}
	if _, ok := itf.V.(RType); ok {
		return true
	}
	if o, ok := itf.V.(*Opaque); ok && o.Kind == "diam.Conn" {
		return true
	}
	return false
}

// ---------- vx: harness API ----------

func vxInt(w int, kind string) NativeFn {
	return func(m *Machine, fr *frame, args []Value) Value {
		label := mustStr(args[0])
		t := m.input(label, kind, 1, w)[0]
		m.tags[label] = t
		return t
	}
}

func mustStr(v Value) string {
	s, ok := concreteStr(v)
	if !ok {
		panic("vx: label must be a concrete string")
	}
	return s
}

func mustInt(v Value) int {
	t := v.(*smt.Term)
	if !t.IsConst() {
		panic("vx: argument must be concrete")
	}
	return int(t.Signed())
}

func registerVX() {
	p := vxPkg + "."
	intrinsics[p+"Int64"] = vxInt(64, "int64")
	intrinsics[p+"Int"] = vxInt(64, "int")
	intrinsics[p+"Int32"] = vxInt(32, "int32")
	intrinsics[p+"Int16"] = vxInt(16, "int16")
	intrinsics[p+"Int8"] = vxInt(8, "int8")
	intrinsics[p+"Uint64"] = vxInt(64, "uint64")
	intrinsics[p+"Uint32"] = vxInt(32, "uint32")
	intrinsics[p+"Uint16"] = vxInt(16, "uint16")
	intrinsics[p+"Uint8"] = vxInt(8, "uint8")
	intrinsics[p+"Byte"] = vxInt(8, "uint8")
	intrinsics[p+"Bool"] = func(m *Machine, fr *frame, args []Value) Value {
		label := mustStr(args[0])
		t := m.input(label, "bool", 1, 0)[0]
		m.tags[label] = t
		return t
	}
	intrinsics[p+"Bytes"] = func(m *Machine, fr *frame, args []Value) Value {
		label := mustStr(args[0])
		n := mustInt(args[1])
		ts := m.input(label, "bytes", n, 8)
		s := m.bytesToSlice(ts)
		m.tags[label] = s
		return s
	}
	intrinsics[p+"String"] = func(m *Machine, fr *frame, args []Value) Value {
		label := mustStr(args[0])
		n := mustInt(args[1])
		ts := m.input(label, "string", n, 8)
		s := m.mkStr(ts)
		m.tags[label] = s
		return s
	}
	intrinsics[p+"DecString"] = func(m *Machine, fr *frame, args []Value) Value {
		label := mustStr(args[0])
		t := m.input(label, "decstring", 1, 64)[0]
		m.tags[label] = t
		return &Str{Dec: t}
	}
	intrinsics[p+"Choice"] = func(m *Machine, fr *frame, args []Value) Value {
		label := mustStr(args[0])
		n := mustInt(args[1])
		ul := m.uniqueLabel(sanitize(label))
		var k int
		if fx := m.E.Opt.Fixed; fx != nil {
			if v := fx[ul]; len(v) > 0 {
				k = int(v[0])
			}
			if k >= n {
				m.abort(abInfeasible, "")
			}
		} else {
			k = m.Choose(n)
		}
		t := m.i64(int64(k))
		// record as an input whose value is fixed on this path
		m.inputs = append(m.inputs, inputRec{label: ul, kind: "choice", terms: []*smt.Term{t}, w: 64})
		m.tags[label] = t
		return t
	}
	intrinsics[p+"Assume"] = func(m *Machine, fr *frame, args []Value) Value {
		c := args[0].(*smt.Term)
		if c.IsFalse() {
			m.abort(abInfeasible, "")
		}
		if !c.IsTrue() {
			if m.query(c) == smt.Unsat {
				m.abort(abInfeasible, "")
			}
			if m.isAssumption == nil {
				m.isAssumption = map[*smt.Term]bool{}
			}
			m.isAssumption[c] = true
			m.assume(c)
		}
		return nil
	}
	intrinsics[p+"Assert"] = func(m *Machine, fr *frame, args []Value) Value {
		name := mustStr(args[0])
		c := args[1].(*smt.Term)
		if m.E.Opt.Twin {
			c = m.C.False
		}
		m.Obligation("assert", name, fr.site(), c)
		return nil
	}
	intrinsics[p+"Fail"] = func(m *Machine, fr *frame, args []Value) Value {
		name := mustStr(args[0])
		site := fr.site()
		if gp, ok := m.env["lastRecovered"].(*GoPanic); ok {
			site = gp.Class + " @ " + gp.Site
		}
		m.Obligation("assert", name, site, m.C.False)
		return nil
	}
	intrinsics[p+"Tag"] = func(m *Machine, fr *frame, args []Value) Value {
		itf := args[1].(Iface)
		m.tags[mustStr(args[0])] = itf.V
		return nil
	}
	intrinsics[p+"Note"] = func(m *Machine, fr *frame, args []Value) Value {
		m.events = append(m.events, mustStr(args[0]))
		return nil
	}
	intrinsics[p+"Emit"] = func(m *Machine, fr *frame, args []Value) Value {
		s, ok := concreteStr(args[0])
		if !ok {
			m.unsupported("vx.Emit of a symbolic string")
		}
		m.E.Emitted = append(m.E.Emitted, s)
		return nil
	}
	intrinsics[p+"Hex"] = func(m *Machine, fr *frame, args []Value) Value {
		b := m.sliceBytes(args[0].(Slice))
		out := make([]byte, 0, 2*len(b))
		for _, t := range b {
			if !t.IsConst() {
				m.unsupported("vx.Hex of symbolic bytes")
			}
			out = append(out, "0123456789abcdef"[t.Val>>4], "0123456789abcdef"[t.Val&15])
		}
		return string(out)
	}
	intrinsics[p+"Param"] = func(m *Machine, fr *frame, args []Value) Value {
		name := mustStr(args[0])
		def := mustInt(args[1])
		if v, ok := m.E.Opt.Params[name]; ok {
			n, err := strconv.Atoi(v)
			if err != nil {
				panic("vx.Param " + name + ": " + err.Error())
			}
			return m.i64(int64(n))
		}
		return m.i64(int64(def))
	}
	intrinsics[p+"BytesEq"] = func(m *Machine, fr *frame, args []Value) Value {
		return m.bytesEq(m.sliceBytes(args[0].(Slice)), m.sliceBytes(args[1].(Slice)))
	}
	intrinsics[p+"Equal"] = func(m *Machine, fr *frame, args []Value) Value {
		a, b := args[0].(Iface), args[1].(Iface)
		if a.T == nil || b.T == nil {
			return m.C.Bool(a.T == nil && b.T == nil)
		}
		if !types.Identical(a.T, b.T) {
			return m.C.False
		}
		m.env["nilEqEmpty"] = true
		defer delete(m.env, "nilEqEmpty")
		return m.deepEqual(fr, a.T, a.V, b.V, 0)
	}
	// Snapshot(ptr): a deep copy of *ptr (maps, slices and pointers followed;
	// opaque library objects, channels and locks shared). SameAs(snapshot, ptr):
	// *ptr is deeply equal to the snapshot.
	intrinsics[p+"Snapshot"] = func(m *Machine, fr *frame, args []Value) Value {
		a := args[0].(Iface)
		ptr, ok := a.V.(*Value)
		if !ok || ptr == nil {
			m.unsupported("vx.Snapshot of a non-pointer")
		}
		cp := new(Value)
		*cp = deepCopy(*ptr, map[interface{}]Value{})
		return Iface{T: a.T, V: cp}
	}
	intrinsics[p+"SameAs"] = func(m *Machine, fr *frame, args []Value) Value {
		a, b := args[0].(Iface), args[1].(Iface)
		if a.T == nil || b.T == nil || !types.Identical(a.T, b.T) {
			m.unsupported("vx.SameAs: snapshot and object of different types")
		}
		m.env["snapshotEq"] = true
		m.env["nilEqEmpty"] = true
		defer delete(m.env, "snapshotEq")
		defer delete(m.env, "nilEqEmpty")
		return m.deepEqual(fr, deref(a.T), *a.V.(*Value), *b.V.(*Value), 0)
	}
	intrinsics[p+"And"] = func(m *Machine, fr *frame, args []Value) Value {
		return m.C.And(args[0].(*smt.Term), args[1].(*smt.Term))
	}
	intrinsics[p+"Or"] = func(m *Machine, fr *frame, args []Value) Value {
		return m.C.Or(args[0].(*smt.Term), args[1].(*smt.Term))
	}
	intrinsics[p+"Implies"] = func(m *Machine, fr *frame, args []Value) Value {
		return m.C.Implies(args[0].(*smt.Term), args[1].(*smt.Term))
	}
	intrinsics[p+"Register"] = func(m *Machine, fr *frame, args []Value) Value {
		m.env["reg:"+mustStr(args[0])] = args[1]
		return nil
	}
	intrinsics[p+"Config"] = func(m *Machine, fr *frame, args []Value) Value {
		t := args[1].(*smt.Term)
		m.env["cfg:"+mustStr(args[0])] = t.IsTrue()
		return nil
	}
	intrinsics[p+"DBPut"] = func(m *Machine, fr *frame, args []Value) Value {
		rg := m.C.Zext(args[1].(*smt.Term), 64)
		field := mustStr(args[2])
		for _, r := range m.dbRows() {
			if m.Branch(m.C.And(m.strEq(fr, r.ueId, args[0]), m.C.Eq(r.rg, rg))) {
				if _, ok := r.fields[field]; !ok {
					r.order = append(r.order, field)
				}
				r.fields[field] = args[3]
				return nil
			}
		}
		r := &dbRow{ueId: args[0], rg: rg, fields: map[string]Value{field: args[3]}, order: []string{field}}
		m.env["mongo"] = append(m.dbRows(), r)
		return nil
	}
	intrinsics[p+"DBGet"] = func(m *Machine, fr *frame, args []Value) Value {
		rg := m.C.Zext(args[1].(*smt.Term), 64)
		field := mustStr(args[2])
		for _, r := range m.dbRows() {
			if m.Branch(m.C.And(m.strEq(fr, r.ueId, args[0]), m.C.Eq(r.rg, rg))) {
				if v, ok := r.fields[field]; ok {
					return Tuple{v, m.C.True}
				}
				return Tuple{"", m.C.False}
			}
		}
		return Tuple{"", m.C.False}
	}
	intrinsics[p+"DBWrites"] = func(m *Machine, fr *frame, args []Value) Value { return m.i64(int64(asInt(m.env["dbWrites"]))) }
	intrinsics[p+"HTTPStatus"] = func(m *Machine, fr *frame, args []Value) Value {
		g := m.gin(ptrArg(args[0]))
		if g.status == nil {
			return m.i64(-1)
		}
		return g.status
	}
	intrinsics[p+"HTTPWrites"] = func(m *Machine, fr *frame, args []Value) Value {
		return m.i64(int64(m.gin(ptrArg(args[0])).writes))
	}
	intrinsics[p+"HTTPHeader"] = func(m *Machine, fr *frame, args []Value) Value {
		if v, ok := m.gin(ptrArg(args[0])).headers[mustStr(args[1])]; ok {
			return v
		}
		return ""
	}
	intrinsics[p+"HTTPBody"] = func(m *Machine, fr *frame, args []Value) Value {
		b := m.gin(ptrArg(args[0])).body
		if b == nil {
			return Iface{}
		}
		return b
	}
	intrinsics[p+"HTTPSetParam"] = func(m *Machine, fr *frame, args []Value) Value {
		m.gin(ptrArg(args[0])).params[mustStr(args[1])] = args[2]
		return nil
	}
	intrinsics[p+"HTTPSetBody"] = func(m *Machine, fr *frame, args []Value) Value {
		m.gin(ptrArg(args[0])).params["reqbody"] = args[1]
		return nil
	}
	intrinsics[p+"Notifications"] = func(m *Machine, fr *frame, args []Value) Value {
		n, _ := m.env["notifications"].([]Value)
		return m.i64(int64(len(n)))
	}
	intrinsics[p+"NotificationURI"] = func(m *Machine, fr *frame, args []Value) Value {
		n, _ := m.env["notifications"].([]Value)
		return n[mustInt(args[0])].(Tuple)[0]
	}
	intrinsics[p+"NotificationBody"] = func(m *Machine, fr *frame, args []Value) Value {
		n, _ := m.env["notifications"].([]Value)
		// the request object; harness reads it through its own accessors
		v := n[mustInt(args[0])].(Tuple)[1]
		if itf, ok := v.(Iface); ok {
			return itf
		}
		return Iface{T: types.NewPointer(m.lookupNamed("github.com/free5gc/openapi/chf/ConvergedCharging", "PostChargingNotificationRequest")), V: v}
	}
	intrinsics[p+"ServerPanicked"] = func(m *Machine, fr *frame, args []Value) Value {
		_, ok := m.env["serverPanic"].(*GoPanic)
		return m.C.Bool(ok)
	}
	intrinsics[p+"AnswersWritten"] = func(m *Machine, fr *frame, args []Value) Value {
		return m.i64(int64(asInt(m.env["answersWritten"])))
	}
	intrinsics[p+"ConnsOpened"] = func(m *Machine, fr *frame, args []Value) Value {
		return m.i64(int64(len(m.conns())))
	}
	intrinsics[p+"ConnsLeaked"] = func(m *Machine, fr *frame, args []Value) Value {
		n := 0
		for _, c := range m.conns() {
			if !c.closed && !c.kept {
				n++
			}
		}
		return m.i64(int64(n))
	}
	intrinsics[p+"DiamConn"] = func(m *Machine, fr *frame, args []Value) Value {
		return Iface{T: diamConnType, V: &Opaque{Kind: "diam.Conn", Data: &diamConn{id: -3}}}
	}
	intrinsics[p+"LastAnswer"] = func(m *Machine, fr *frame, args []Value) Value {
		msg, ok := m.env["lastAnswer"].(*diamMsg)
		if !ok || msg.body == nil {
			return m.C.False
		}
		dst := args[0].(Iface)
		if !types.Identical(deref(dst.T), msg.bodyT) {
			m.unsupported("vx.LastAnswer into %v of a %v", dst.T, msg.bodyT)
		}
		store(dst.V.(*Value), deepCopy(msg.body, map[interface{}]Value{}))
		return m.C.True
	}
	intrinsics[p+"AnswerTo"] = func(m *Machine, fr *frame, args []Value) Value {
		req := opaqueOf(args[0]).Data.(*diamMsg)
		msg := req.answer
		if msg == nil || msg.body == nil {
			return m.C.False
		}
		dst := args[1].(Iface)
		if !types.Identical(deref(dst.T), msg.bodyT) {
			m.unsupported("vx.AnswerTo into %v of a %v", dst.T, msg.bodyT)
		}
		store(dst.V.(*Value), deepCopy(msg.body, map[interface{}]Value{}))
		return m.C.True
	}
	// OmitAVP(msg, "Member.Path"): the AVP of that member is absent from the
	// message (a peer other than the CHF may leave out optional AVPs).
	intrinsics[p+"OmitAVP"] = func(m *Machine, fr *frame, args []Value) Value {
		msg := opaqueOf(args[0].(Iface).V).Data.(*diamMsg)
		msg.omit = append(msg.omit, mustStr(args[1]))
		return nil
	}
	intrinsics[p+"Symbolic"] = func(m *Machine, fr *frame, args []Value) Value { return m.C.True }
	intrinsics[p+"IsConcreteRun"] = func(m *Machine, fr *frame, args []Value) Value { return m.C.False }
	intrinsics[p+"Time"] = vxTime
	intrinsics[p+"LocksHeld"] = func(m *Machine, fr *frame, args []Value) Value {
		n := 0
		for _, l := range m.lockOrder() {
			if l.held != 0 {
				n++
			}
		}
		return m.i64(int64(n))
	}
}

// publish: an object stored in a shared pool (sync.Map) becomes visible to
// other requests; with the lockset instrumentation on, its fields are watched.
func (m *Machine) publish(v Value) {
	if m.env["watch"] == nil {
		return
	}
	if itf, ok := v.(Iface); ok {
		if ptr, ok := itf.V.(*Value); ok && ptr != nil {
			if pt, ok := itf.T.Underlying().(*types.Pointer); ok {
				name := pt.Elem().String()
				if i := strings.LastIndex(name, "."); i >= 0 {
					name = name[i+1:]
				}
				m.watchStruct(ptr, pt.Elem(), name)
			}
		}
	}
}

// dirMissing: the model file system has the directories / and /tmp only; a
// file can be created in no other directory (a name built from request data
// may contain path separators).
func (m *Machine) dirMissing(name string) Value {
	if name == "" || name == "<symbolic name>" {
		return nil
	}
	// every directory component must exist: "/tmp/a/../x" needs /tmp/a
	i := strings.LastIndex(name, "/")
	if i < 0 || name[:i] == "/tmp" || name[:i] == "" {
		return nil
	}
	return m.newError("open " + name + ": no such file or directory")
}

type fileObj struct {
	name string
	off  int
}

func (m *Machine) uniqueLabel(label string) string {
	k := m.labelCnt[label]
	m.labelCnt[label]++
	if k > 0 {
		return fmt.Sprintf("%s@%d", label, k)
	}
	return label
}

// ---------- std library ----------

func strArg(v Value) (string, bool) { return concreteStr(v) }

func (m *Machine) strSliceVal(ss []string) Value {
	c := &Cells{E: make([]Value, len(ss))}
	for i, s := range ss {
		c.E[i] = s
	}
	return Slice{A: c, Len: len(ss), Cap: len(ss)}
}

func registerStd() {
	I := intrinsics
	noop := func(m *Machine, fr *frame, args []Value) Value { return nil }

	// fmt
	for _, n := range []string{"fmt.Println", "fmt.Printf", "fmt.Print"} {
		I[n] = func(m *Machine, fr *frame, args []Value) Value { return Tuple{m.i64(0), Iface{}} }
	}
	I["fmt.Sprintf"] = func(m *Machine, fr *frame, args []Value) Value {
		f, _ := concreteStr(args[0])
		// concrete arguments are formatted for real (file names, keys);
		// anything symbolic yields a placeholder that still depends on the
		// concrete arguments
		var goArgs []interface{}
		allConcrete := true
		for _, a := range variadic(args[1]) {
			v := a
			if itf, ok := a.(Iface); ok {
				v = itf.V
				if s, ok := concreteStr(v); ok {
					goArgs = append(goArgs, s)
					continue
				}
				if t, ok := v.(*smt.Term); ok && t.IsConst() && t.W > 0 {
					if itf.T != nil && isSigned(itf.T) {
						goArgs = append(goArgs, t.Signed())
					} else {
						goArgs = append(goArgs, t.Val)
					}
					continue
				}
			}
			allConcrete = false
			goArgs = append(goArgs, "?")
		}
		if allConcrete {
			return fmt.Sprintf(f, goArgs...)
		}
		return "<fmt:" + f + ":" + fmt.Sprint(goArgs...) + ">"
	}
	I["fmt.Sprint"] = func(m *Machine, fr *frame, args []Value) Value { return "<fmt>" }
	I["fmt.Sprintln"] = func(m *Machine, fr *frame, args []Value) Value { return "<fmt>\n" }
	I["fmt.Errorf"] = func(m *Machine, fr *frame, args []Value) Value {
		f, _ := concreteStr(args[0])
		return m.newError(f)
	}
	I["errors.New"] = func(m *Machine, fr *frame, args []Value) Value {
		f, _ := concreteStr(args[0])
		return m.newError(f)
	}

	// strings with concrete fast paths; symbolic cases implemented on bytes
	I["strings.Split"] = func(m *Machine, fr *frame, args []Value) Value {
		s, ok1 := strArg(args[0])
		sep, ok2 := strArg(args[1])
		if ok1 && ok2 {
			return m.strSliceVal(strings.Split(s, sep))
		}
		if !ok2 {
			m.unsupported("strings.Split with symbolic separator")
		}
		b := m.strBytes(fr, args[0])
		if sep == "" {
			// explode into UTF-8 sequences as utf8.DecodeRuneInString delimits
			// them (an invalid or truncated sequence is one byte long); the
			// shape of every sequence is a forked decision on the bytes
			c := m.C
			in := func(t *smt.Term, lo, hi byte) *smt.Term {
				return c.And(c.Ule(m.b8(lo), t), c.Ule(t, m.b8(hi)))
			}
			out := &Cells{}
			for i := 0; i < len(b); {
				n := 1
				t := b[i]
				if !m.Branch(c.Ult(t, m.b8(0x80))) {
					cont := func(k int, lo, hi byte) bool {
						return i+k < len(b) && m.Branch(in(b[i+k], lo, hi))
					}
					switch {
					case m.Branch(in(t, 0xC2, 0xDF)):
						if cont(1, 0x80, 0xBF) {
							n = 2
						}
					case m.Branch(in(t, 0xE0, 0xEF)):
						lo, hi := byte(0x80), byte(0xBF)
						if m.Branch(c.Eq(t, m.b8(0xE0))) {
							lo = 0xA0
						} else if m.Branch(c.Eq(t, m.b8(0xED))) {
							hi = 0x9F
						}
						if cont(1, lo, hi) && cont(2, 0x80, 0xBF) {
							n = 3
						}
					case m.Branch(in(t, 0xF0, 0xF4)):
						lo, hi := byte(0x80), byte(0xBF)
						if m.Branch(c.Eq(t, m.b8(0xF0))) {
							lo = 0x90
						} else if m.Branch(c.Eq(t, m.b8(0xF4))) {
							hi = 0x8F
						}
						if cont(1, lo, hi) && cont(2, 0x80, 0xBF) && cont(3, 0x80, 0xBF) {
							n = 4
						}
					}
				}
				out.E = append(out.E, m.mkStr(b[i:i+n]))
				i += n
			}
			return Slice{A: out, Len: len(out.E), Cap: len(out.E)}
		}
		// general: fork on match positions
		out := &Cells{}
		start := 0
		i := 0
		for i+len(sep) <= len(b) {
			if m.Branch(m.matchAt(b, i, sep)) {
				out.E = append(out.E, m.mkStr(b[start:i]))
				i += len(sep)
				start = i
			} else {
				i++
			}
		}
		out.E = append(out.E, m.mkStr(b[start:]))
		return Slice{A: out, Len: len(out.E), Cap: len(out.E)}
	}
	unesc := func(host func(string) (string, error), name string) NativeFn {
		return func(m *Machine, fr *frame, args []Value) Value {
			if s, ok := strArg(args[0]); ok {
				r, err := host(s)
				if err != nil {
					return Tuple{"", m.newError(err.Error())}
				}
				return Tuple{r, Iface{}}
			}
			// symbolic bytes: without a '%' (and, for query strings, a '+') the
			// text is returned as it is; escapes in symbolic text are not modelled
			b := m.strBytes(fr, args[0])
			special := m.C.False
			for _, t := range b {
				special = m.C.Or(special, m.C.Or(m.C.Eq(t, m.b8('%')), m.C.Eq(t, m.b8('+'))))
			}
			if m.Branch(special) {
				m.unsupported("%s of symbolic text containing an escape", name)
			}
			return Tuple{args[0], Iface{}}
		}
	}
	I["net/url.PathUnescape"] = unesc(url.PathUnescape, "url.PathUnescape")
	I["net/url.QueryUnescape"] = unesc(url.QueryUnescape, "url.QueryUnescape")
	I["strings.Fields"] = func(m *Machine, fr *frame, args []Value) Value {
		s, ok := strArg(args[0])
		if !ok {
			m.unsupported("strings.Fields on a symbolic string")
		}
		return m.strSliceVal(strings.Fields(s))
	}
	I["strings.HasPrefix"] = func(m *Machine, fr *frame, args []Value) Value {
		p, ok := strArg(args[1])
		if !ok {
			// symbolic prefix: lengths are concrete, the bytes are compared as terms
			pb := m.strBytes(fr, args[1])
			b := m.strBytes(fr, args[0])
			if len(b) < len(pb) {
				return m.C.False
			}
			return m.bytesEq(b[:len(pb)], pb)
		}
		b := m.strBytes(fr, args[0])
		if len(b) < len(p) {
			return m.C.False
		}
		return m.matchAt(b, 0, p)
	}
	I["strings.HasSuffix"] = func(m *Machine, fr *frame, args []Value) Value {
		p, ok := strArg(args[1])
		if !ok {
			pb := m.strBytes(fr, args[1])
			b := m.strBytes(fr, args[0])
			if len(b) < len(pb) {
				return m.C.False
			}
			return m.bytesEq(b[len(b)-len(pb):], pb)
		}
		b := m.strBytes(fr, args[0])
		if len(b) < len(p) {
			return m.C.False
		}
		return m.matchAt(b, len(b)-len(p), p)
	}
	I["strings.Index"] = func(m *Machine, fr *frame, args []Value) Value {
		sep, ok := strArg(args[1])
		if !ok {
			m.unsupported("strings.Index with symbolic needle")
		}
		if ds, isDec := args[0].(*Str); isDec && ds.Dec != nil && sep != "" && !decAlphabet(sep) {
			return m.i64(-1) // decimal text contains only digits and '-'
		}
		if s, ok := strArg(args[0]); ok {
			return m.i64(int64(strings.Index(s, sep)))
		}
		b := m.strBytes(fr, args[0])
		for i := 0; i+len(sep) <= len(b); i++ {
			if m.Branch(m.matchAt(b, i, sep)) {
				return m.i64(int64(i))
			}
		}
		return m.i64(-1)
	}
	I["strings.Contains"] = func(m *Machine, fr *frame, args []Value) Value {
		r := I["strings.Index"](m, fr, args).(*smt.Term)
		return m.C.Bool(r.Signed() >= 0)
	}
	I["strings.Replace"] = func(m *Machine, fr *frame, args []Value) Value {
		old, ok1 := strArg(args[1])
		nw, ok2 := strArg(args[2])
		n := mustInt(args[3])
		if !ok1 || !ok2 || old == "" {
			m.unsupported("strings.Replace with symbolic pattern")
		}
		if s, ok := strArg(args[0]); ok {
			return strings.Replace(s, old, nw, n)
		}
		b := m.strBytes(fr, args[0])
		var out []*smt.Term
		i := 0
		cnt := 0
		for i < len(b) {
			if (n < 0 || cnt < n) && i+len(old) <= len(b) && m.Branch(m.matchAt(b, i, old)) {
				for j := 0; j < len(nw); j++ {
					out = append(out, m.b8(nw[j]))
				}
				i += len(old)
				cnt++
			} else {
				out = append(out, b[i])
				i++
			}
		}
		return m.mkStr(out)
	}
	I["strings.ToLower"] = func(m *Machine, fr *frame, args []Value) Value {
		s, ok := strArg(args[0])
		if !ok {
			m.unsupported("strings.ToLower symbolic")
		}
		return strings.ToLower(s)
	}
	I["strings.ToUpper"] = func(m *Machine, fr *frame, args []Value) Value {
		s, ok := strArg(args[0])
		if !ok {
			m.unsupported("strings.ToUpper symbolic")
		}
		return strings.ToUpper(s)
	}
	I["strings.TrimSpace"] = func(m *Machine, fr *frame, args []Value) Value {
		s, ok := strArg(args[0])
		if !ok {
			m.unsupported("strings.TrimSpace symbolic")
		}
		return strings.TrimSpace(s)
	}
	I["strings.Join"] = func(m *Machine, fr *frame, args []Value) Value {
		sl := args[0].(Slice)
		sep := m.strBytes(fr, args[1])
		var out []*smt.Term
		for i := 0; i < sl.Len; i++ {
			if i > 0 {
				out = append(out, sep...)
			}
			out = append(out, m.strBytes(fr, *sl.at(i))...)
		}
		return m.mkStr(out)
	}

	// strconv
	I["strconv.Itoa"] = func(m *Machine, fr *frame, args []Value) Value {
		t := args[0].(*smt.Term)
		if t.IsConst() {
			return strconv.Itoa(int(t.Signed()))
		}
		return &Str{Dec: t}
	}
	I["strconv.FormatInt"] = func(m *Machine, fr *frame, args []Value) Value {
		t := args[0].(*smt.Term)
		base := mustInt(args[1])
		if t.IsConst() {
			return strconv.FormatInt(t.Signed(), base)
		}
		if base != 10 {
			m.unsupported("FormatInt base %d symbolic", base)
		}
		return &Str{Dec: t}
	}
	parseInt := func(m *Machine, fr *frame, s Value, bitSize int) Value {
		if cs, ok := concreteStr(s); ok {
			v, err := strconv.ParseInt(cs, 10, bitSize)
			if err != nil {
				return Tuple{m.i64(v), m.newError("strconv.ParseInt: " + err.Error())}
			}
			return Tuple{m.i64(v), Iface{}}
		}
		st := s.(*Str)
		if st.Dec != nil {
			if bitSize == 64 || bitSize == 0 {
				return Tuple{st.Dec, Iface{}}
			}
			m.unsupported("ParseInt(DecStr, bitSize %d)", bitSize)
		}
		return m.parseDec(fr, st.B, bitSize)
	}
	I["strconv.ParseInt"] = func(m *Machine, fr *frame, args []Value) Value {
		if mustInt(args[1]) != 10 {
			s, ok := concreteStr(args[0])
			if !ok {
				st, isStr := args[0].(*Str)
				base := mustInt(args[1])
				if !isStr || st.Dec != nil || (base != 0 && base != 2 && base != 8 && base != 16) {
					m.unsupported("ParseInt base %d on this symbolic string", base)
				}
				bs := mustInt(args[2])
				if bs == 0 {
					bs = 64
				}
				return m.parseBase(fr, st.B, base, bs)
			}
			v, err := strconv.ParseInt(s, mustInt(args[1]), mustInt(args[2]))
			if err != nil {
				return Tuple{m.i64(v), m.newError(err.Error())}
			}
			return Tuple{m.i64(v), Iface{}}
		}
		bs := mustInt(args[2])
		if bs == 0 {
			bs = 64
		}
		return parseInt(m, fr, args[0], bs)
	}
	I["strconv.Atoi"] = func(m *Machine, fr *frame, args []Value) Value {
		return parseInt(m, fr, args[0], 64)
	}

	// math
	minmax := func(isMin bool) func(m *Machine, fr *frame, args []Value) Value {
		return func(m *Machine, fr *frame, args []Value) Value {
			x, y := args[0].(Float), args[1].(Float)
			if x.OK && y.OK {
				if isMin {
					return Float{OK: true, F: math.Min(x.F, y.F), W: 64}
				}
				return Float{OK: true, F: math.Max(x.F, y.F), W: 64}
			}
			asInt := func(f Float) *smt.Term {
				if f.Int != nil {
					return f.Int
				}
				if f.OK && f.F == math.Trunc(f.F) && math.Abs(f.F) <= 1<<53 {
					return m.i64(int64(f.F))
				}
				return nil
			}
			a, b := asInt(x), asInt(y)
			if a == nil || b == nil {
				return Float{W: 64}
			}
			// rounding to nearest is monotone: min(RN(a),RN(b)) = RN(min(a,b))
			lt := m.C.Slt(a, b)
			if isMin {
				return Float{W: 64, Int: m.C.Ite(lt, a, b)}
			}
			return Float{W: 64, Int: m.C.Ite(lt, b, a)}
		}
	}
	I["math.Min"] = minmax(true)
	I["math.Max"] = minmax(false)
	I["math.Pow10"] = func(m *Machine, fr *frame, args []Value) Value {
		t := args[0].(*smt.Term)
		if !t.IsConst() {
			return Float{W: 64, Pow10Of: t}
		}
		return Float{OK: true, F: math.Pow10(int(t.Signed())), W: 64}
	}

	// math/bits (table lookups in the real code would fork 256 ways)
	bitsLen := func(w int) NativeFn {
		return func(m *Machine, fr *frame, args []Value) Value {
			x := args[0].(*smt.Term)
			if x.IsConst() {
				n := 0
				for v := x.Val; v != 0; v >>= 1 {
					n++
				}
				return m.i64(int64(n))
			}
			r := m.i64(0)
			for k := 1; k <= w; k++ {
				// Len = k  iff  x >= 2^(k-1)  (largest such k wins)
				r = m.C.Ite(m.C.Ule(m.C.Const(uint64(1)<<uint(k-1), x.W), x), m.i64(int64(k)), r)
			}
			return r
		}
	}
	I["math/bits.Len64"] = bitsLen(64)
	I["math/bits.Len32"] = bitsLen(32)
	I["math/bits.Len16"] = bitsLen(16)
	I["math/bits.Len8"] = bitsLen(8)
	I["math/bits.Len"] = bitsLen(64)
	lz := func(w int) NativeFn {
		return func(m *Machine, fr *frame, args []Value) Value {
			l := bitsLen(w)(m, fr, args).(*smt.Term)
			return m.C.Sub(m.i64(int64(w)), l)
		}
	}
	I["math/bits.LeadingZeros64"] = lz(64)
	I["math/bits.LeadingZeros32"] = lz(32)
	I["math/bits.LeadingZeros16"] = lz(16)
	I["math/bits.LeadingZeros8"] = lz(8)
	I["math/bits.LeadingZeros"] = lz(64)

	// encoding/hex
	I["encoding/hex.DecodeString"] = func(m *Machine, fr *frame, args []Value) Value {
		b := m.strBytes(fr, args[0])
		if len(b)%2 == 1 {
			// hex.ErrLength after decoding the even prefix (only if all valid)
			return Tuple{Slice{}, m.newError("encoding/hex: odd length hex string")}
		}
		out := make([]*smt.Term, 0, len(b)/2)
		for i := 0; i+1 < len(b); i += 2 {
			hi, ok1 := m.hexNibble(b[i])
			lo, ok2 := m.hexNibble(b[i+1])
			if !m.Branch(m.C.And(ok1, ok2)) {
				return Tuple{m.bytesToSlice(out), m.newError("encoding/hex: invalid byte")}
			}
			out = append(out, m.C.BOr(m.C.Shl(hi, m.b8(4)), lo))
		}
		return Tuple{m.bytesToSlice(out), Iface{}}
	}

	// sync
	I["(*sync.Mutex).Lock"] = func(m *Machine, fr *frame, args []Value) Value { m.lock(fr, args[0].(*Value), false); return nil }
	I["(*sync.Mutex).Unlock"] = func(m *Machine, fr *frame, args []Value) Value { m.unlock(fr, args[0].(*Value), false); return nil }
	I["(*sync.Mutex).TryLock"] = func(m *Machine, fr *frame, args []Value) Value {
		m.unsupported("TryLock")
		return nil
	}
	I["(*sync.RWMutex).Lock"] = I["(*sync.Mutex).Lock"]
	I["(*sync.RWMutex).Unlock"] = I["(*sync.Mutex).Unlock"]
	I["(*sync.RWMutex).RLock"] = func(m *Machine, fr *frame, args []Value) Value { m.lock(fr, args[0].(*Value), true); return nil }
	I["(*sync.RWMutex).RUnlock"] = func(m *Machine, fr *frame, args []Value) Value { m.unlock(fr, args[0].(*Value), true); return nil }
	I["(*sync.Map).Load"] = func(m *Machine, fr *frame, args []Value) Value {
		mp := m.syncMap(args[0].(*Value))
		m.onSyncMap(fr, args[0].(*Value), false)
		if e := m.mapFind(fr, mp, args[1]); e != nil {
			return Tuple{e.V, m.C.True}
		}
		return Tuple{Iface{}, m.C.False}
	}
	I["(*sync.Map).Store"] = func(m *Machine, fr *frame, args []Value) Value {
		mp := m.syncMap(args[0].(*Value))
		m.onSyncMap(fr, args[0].(*Value), true)
		m.publish(args[2])
		m.mapUpdate(fr, mp, args[1], args[2])
		return nil
	}
	I["(*sync.Map).LoadOrStore"] = func(m *Machine, fr *frame, args []Value) Value {
		mp := m.syncMap(args[0].(*Value))
		m.onSyncMap(fr, args[0].(*Value), true)
		if e := m.mapFind(fr, mp, args[1]); e != nil {
			return Tuple{e.V, m.C.True}
		}
		m.publish(args[2])
		mp.E = append(mp.E, &mapEntry{K: args[1], V: args[2]})
		return Tuple{args[2], m.C.False}
	}
	I["(*sync.Map).Delete"] = func(m *Machine, fr *frame, args []Value) Value {
		m.mapDelete(fr, m.syncMap(args[0].(*Value)), args[1])
		return nil
	}
	I["(*sync.Map).Range"] = func(m *Machine, fr *frame, args []Value) Value {
		mp := m.syncMap(args[0].(*Value))
		for _, e := range append([]*mapEntry{}, mp.E...) {
			if e.Del {
				continue
			}
			r := m.call(args[1], fr, []Value{e.K, e.V}).(*smt.Term)
			if !m.Branch(r) {
				break
			}
		}
		return nil
	}
	// sync.Pool: Get hands back an object that was Put earlier or a fresh one
	// (the pool may drop its content at any time): both are explored.
	I["(*sync.Pool).Put"] = func(m *Machine, fr *frame, args []Value) Value {
		key := m.addrKey("pool", args[0].(*Value))
		items, _ := m.env[key].([]Value)
		if itf, ok := args[1].(Iface); ok && itf.T == nil {
			return nil
		}
		m.env[key] = append(items, args[1])
		return nil
	}
	I["(*sync.Pool).Get"] = func(m *Machine, fr *frame, args []Value) Value {
		pp := args[0].(*Value)
		key := m.addrKey("pool", pp)
		items, _ := m.env[key].([]Value)
		if len(items) > 0 && m.Choose(2) == 0 {
			it := items[len(items)-1]
			m.env[key] = items[:len(items)-1]
			return it
		}
		st := m.P.Package("sync").Pkg.Scope().Lookup("Pool").Type().Underlying().(*types.Struct)
		for i := 0; i < st.NumFields(); i++ {
			if st.Field(i).Name() == "New" {
				fn := (*pp).(Struct)[i]
				if f, ok := fn.(*ssa.Function); ok && f == nil {
					return Iface{}
				}
				if fn == nil {
					return Iface{}
				}
				return m.call(fn, fr, nil)
			}
		}
		return Iface{}
	}
	I["(*sync.WaitGroup).Add"] = noop
	I["(*sync.WaitGroup).Done"] = noop
	I["(*sync.WaitGroup).Wait"] = noop
	I["(*sync.Once).Do"] = func(m *Machine, fr *frame, args []Value) Value {
		p := args[0].(*Value)
		key := m.addrKey("once", p)
		if m.env[key] == nil {
			m.env[key] = true
			m.call(args[1], fr, nil)
		}
		return nil
	}

	// os
	I["os.WriteFile"] = func(m *Machine, fr *frame, args []Value) Value {
		m.ioYield()
		name, _ := concreteStr(args[0])
		if e := m.dirMissing(name); e != nil {
			return e
		}
		files, _ := m.env["files"].(map[string][]*smt.Term)
		if files == nil {
			files = map[string][]*smt.Term{}
			m.env["files"] = files
		}
		if _, ok := concreteStr(args[0]); !ok {
			name = "<symbolic name>"
		}
		files[name] = m.sliceBytes(args[1].(Slice))
		m.env["lastFile"] = name
		return Iface{}
	}
	I["os.ReadFile"] = func(m *Machine, fr *frame, args []Value) Value {
		name, ok := concreteStr(args[0])
		if !ok {
			name = "<symbolic name>"
		}
		files, _ := m.env["files"].(map[string][]*smt.Term)
		b, ok := files[name]
		if !ok {
			return Tuple{Slice{}, m.newError("open " + name + ": no such file")}
		}
		// os.ReadFile returns a slice whose capacity exceeds its length (size+1,
		// at least 512): reslicing a little beyond len does not panic in the
		// real program, it silently reads zero bytes
		capN := len(b) + 1
		if capN < 512 {
			capN = 512
		}
		all := append([]*smt.Term{}, b...)
		for len(all) < capN {
			all = append(all, m.b8(0))
		}
		sl := m.bytesToSlice(all)
		sl.Len = len(b)
		return Tuple{sl, Iface{}}
	}
	// os.OpenFile / (*os.File).Write: a file object with a name and a write
	// offset over the in-memory file table. Without O_TRUNC the existing
	// content stays and is overwritten in place (what follows the written
	// bytes survives); O_APPEND starts at the end.
	I["os.OpenFile"] = func(m *Machine, fr *frame, args []Value) Value {
		name, ok := concreteStr(args[0])
		fl, ok2 := args[1].(*smt.Term)
		if !ok || !ok2 || !fl.IsConst() {
			m.unsupported("os.OpenFile with symbolic name or flags")
		}
		files, _ := m.env["files"].(map[string][]*smt.Term)
		if files == nil {
			files = map[string][]*smt.Term{}
			m.env["files"] = files
		}
		flags := int(fl.Val)
		if e := m.dirMissing(name); e != nil {
			return Tuple{(*Value)(nil), e}
		}
		_, exists := files[name]
		if !exists {
			if flags&os.O_CREATE == 0 {
				return Tuple{(*Value)(nil), m.newError("open " + name + ": no such file or directory")}
			}
			files[name] = nil
		} else if flags&os.O_TRUNC != 0 {
			files[name] = nil
		}
		f := &fileObj{name: name}
		if flags&os.O_APPEND != 0 {
			f.off = len(files[name])
		}
		return Tuple{m.newOpaquePtr("os.File", f), Iface{}}
	}
	I["(*os.File).Write"] = func(m *Machine, fr *frame, args []Value) Value {
		m.ioYield()
		f, _ := opaqueOf(args[0]).Data.(*fileObj)
		if f == nil {
			return Tuple{m.i64(0), Iface{}} // os.Create stub of the start-up harness: content not kept
		}
		files := m.env["files"].(map[string][]*smt.Term)
		b := m.sliceBytes(args[1].(Slice))
		cur := files[f.name]
		for len(cur) < f.off+len(b) {
			cur = append(cur, m.b8(0))
		}
		cur = append([]*smt.Term{}, cur...)
		copy(cur[f.off:], b)
		files[f.name] = cur
		f.off += len(b)
		m.env["lastFile"] = f.name
		return Tuple{m.i64(int64(len(b))), Iface{}}
	}
	I["(*os.File).Sync"] = func(m *Machine, fr *frame, args []Value) Value { return Iface{} }
	I["(*os.File).Truncate"] = func(m *Machine, fr *frame, args []Value) Value {
		f, _ := opaqueOf(args[0]).Data.(*fileObj)
		n, ok := args[1].(*smt.Term)
		if f == nil || !ok || !n.IsConst() {
			m.unsupported("(*os.File).Truncate with a symbolic size")
		}
		files := m.env["files"].(map[string][]*smt.Term)
		cur := files[f.name]
		for len(cur) < int(n.Val) {
			cur = append(cur, m.b8(0))
		}
		files[f.name] = append([]*smt.Term{}, cur[:int(n.Val)]...)
		return Iface{}
	}
	I["os.Getpid"] = func(m *Machine, fr *frame, args []Value) Value { return m.i64(4242) }
	I["os.Rename"] = func(m *Machine, fr *frame, args []Value) Value {
		m.ioYield()
		from, ok1 := concreteStr(args[0])
		to, ok2 := concreteStr(args[1])
		if !ok1 || !ok2 {
			m.unsupported("os.Rename with symbolic names")
		}
		files, _ := m.env["files"].(map[string][]*smt.Term)
		b, ok := files[from]
		if !ok {
			return m.newError("rename " + from + " " + to + ": no such file or directory")
		}
		files[to] = b
		delete(files, from)
		return Iface{}
	}
	I["os.Remove"] = func(m *Machine, fr *frame, args []Value) Value {
		name, ok := concreteStr(args[0])
		if !ok {
			m.unsupported("os.Remove with a symbolic name")
		}
		files, _ := m.env["files"].(map[string][]*smt.Term)
		if _, ok := files[name]; !ok {
			return m.newError("remove " + name + ": no such file or directory")
		}
		delete(files, name)
		return Iface{}
	}
	I["os.Getenv"] = func(m *Machine, fr *frame, args []Value) Value { return "" }

	// bytes.Buffer (modelled as a growing byte sequence kept in env)
	I["(*bytes.Buffer).Bytes"] = func(m *Machine, fr *frame, args []Value) Value {
		return m.bytesToSlice(append([]*smt.Term{}, m.buffer(args[0].(*Value)).b...))
	}
	I["(*bytes.Buffer).Len"] = func(m *Machine, fr *frame, args []Value) Value {
		return m.i64(int64(len(m.buffer(args[0].(*Value)).b)))
	}
	I["(*bytes.Buffer).Write"] = func(m *Machine, fr *frame, args []Value) Value {
		bf := m.buffer(args[0].(*Value))
		s := args[1].(Slice)
		bf.b = append(bf.b, m.sliceBytes(s)...)
		return Tuple{m.i64(int64(s.Len)), Iface{}}
	}
	I["(*bytes.Buffer).WriteByte"] = func(m *Machine, fr *frame, args []Value) Value {
		bf := m.buffer(args[0].(*Value))
		bf.b = append(bf.b, args[1].(*smt.Term))
		return Iface{}
	}
	I["(*bytes.Buffer).WriteString"] = func(m *Machine, fr *frame, args []Value) Value {
		bf := m.buffer(args[0].(*Value))
		b := m.strBytes(fr, args[1])
		bf.b = append(bf.b, b...)
		return Tuple{m.i64(int64(len(b))), Iface{}}
	}
	I["encoding/binary.Write"] = func(m *Machine, fr *frame, args []Value) Value {
		w := args[0].(Iface)
		bp, ok := w.V.(*Value)
		if !ok || !strings.HasSuffix(w.T.String(), "bytes.Buffer") {
			m.unsupported("binary.Write to %v", w.T)
		}
		order := args[1].(Iface)
		big := strings.Contains(order.T.String(), "bigEndian")
		data := args[2].(Iface)
		bs, ok := m.binaryBytes(data.T, data.V, big)
		if !ok {
			return m.newError("binary.Write: unsupported type " + data.T.String())
		}
		bf := m.buffer(bp)
		bf.b = append(bf.b, bs...)
		return Iface{}
	}
	beUint := func(n int) NativeFn {
		return func(m *Machine, fr *frame, args []Value) Value {
			s := args[len(args)-1].(Slice)
			if s.Len < n {
				fr.goPanic("index out of range", fmt.Sprintf("binary.BigEndian.Uint%d on %d bytes", n*8, s.Len))
			}
			r := (*s.at(0)).(*smt.Term)
			for i := 1; i < n; i++ {
				r = m.C.Concat(r, (*s.at(i)).(*smt.Term))
			}
			return r
		}
	}
	bePut := func(n int) NativeFn {
		return func(m *Machine, fr *frame, args []Value) Value {
			s := args[len(args)-2].(Slice)
			x := args[len(args)-1].(*smt.Term)
			if s.Len < n {
				fr.goPanic("index out of range", fmt.Sprintf("binary.BigEndian.PutUint%d on %d bytes", n*8, s.Len))
			}
			for i := 0; i < n; i++ {
				*s.at(n - 1 - i) = m.C.Extract(x, 8*i+7, 8*i)
			}
			return nil
		}
	}
	I["(encoding/binary.bigEndian).PutUint16"] = bePut(2)
	I["(encoding/binary.bigEndian).PutUint32"] = bePut(4)
	I["(encoding/binary.bigEndian).PutUint64"] = bePut(8)
	I["(encoding/binary.bigEndian).Uint16"] = beUint(2)
	I["(encoding/binary.bigEndian).Uint32"] = beUint(4)
	I["(encoding/binary.bigEndian).Uint64"] = beUint(8)

	// time
	registerTime()
	// misc
	I["runtime.Gosched"] = noop
	I["runtime.KeepAlive"] = noop
}

func decAlphabet(s string) bool {
	for i := 0; i < len(s); i++ {
		if (s[i] < '0' || s[i] > '9') && s[i] != '-' {
			return false
		}
	}
	return true
}

func (m *Machine) assumeASCII(fr *frame, t *smt.Term) {
	c := m.C.Ult(t, m.b8(0x80))
	if c.IsTrue() {
		return
	}
	if c.IsFalse() || m.query(c) == smt.Unsat {
		m.unsupported("non-ASCII byte in string explode at %s", fr.site())
	}
	m.env["assumedASCII"] = true
	m.assume(c)
}

func (m *Machine) matchAt(b []*smt.Term, i int, p string) *smt.Term {
	r := m.C.True
	for j := 0; j < len(p); j++ {
		r = m.C.And(r, m.C.Eq(b[i+j], m.b8(p[j])))
	}
	return r
}

func (m *Machine) hexNibble(t *smt.Term) (*smt.Term, *smt.Term) {
	c := m.C
	isDig := c.And(c.Ule(m.b8('0'), t), c.Ule(t, m.b8('9')))
	isLow := c.And(c.Ule(m.b8('a'), t), c.Ule(t, m.b8('f')))
	isUp := c.And(c.Ule(m.b8('A'), t), c.Ule(t, m.b8('F')))
	v := c.Ite(isDig, c.Sub(t, m.b8('0')), c.Ite(isLow, c.Sub(t, m.b8('a'-10)), c.Sub(t, m.b8('A'-10))))
	return v, c.Or(isDig, c.Or(isLow, isUp))
}

// parseDec models strconv.ParseInt(s, 10, bitSize) / Atoi on symbolic bytes.
func (m *Machine) parseDec(fr *frame, b []*smt.Term, bitSize int) Value {
	c := m.C
	bad := func() Value { return Tuple{m.i64(0), m.newError("strconv: invalid syntax")} }
	if len(b) == 0 {
		return bad()
	}
	neg := false
	i := 0
	if m.Branch(c.Eq(b[0], m.b8('-'))) {
		neg = true
		i = 1
	} else if m.Branch(c.Eq(b[0], m.b8('+'))) {
		i = 1
	}
	if i == len(b) {
		return bad()
	}
	if len(b)-i > 18 {
		m.unsupported("parseDec: more than 18 symbolic digits")
	}
	val := c.Const(0, 64)
	for ; i < len(b); i++ {
		isDig := c.And(c.Ule(m.b8('0'), b[i]), c.Ule(b[i], m.b8('9')))
		if !m.Branch(isDig) {
			// underscores are only legal with base 0
			return bad()
		}
		val = c.Add(c.Mul(val, c.Const(10, 64)), c.Zext(c.Sub(b[i], m.b8('0')), 64))
	}
	if neg {
		val = c.Neg(val)
	}
	if bitSize < 64 {
		lim := int64(1) << uint(bitSize-1)
		in := c.And(c.Sle(m.i64(-lim), val), c.Slt(val, m.i64(lim)))
		if !m.Branch(in) {
			return Tuple{c.Ite(c.Slt(val, m.i64(0)), m.i64(-lim), m.i64(lim-1)), m.newError("strconv: value out of range")}
		}
	}
	return Tuple{val, Iface{}}
}

// parseBase: strconv.ParseInt on symbolic bytes for base 0, 2, 8, 16 (base 0:
// the prefix decides; a leading "0" alone means octal). Underscores (legal in
// some positions with base 0) are outside the model.
func (m *Machine) parseBase(fr *frame, b []*smt.Term, base, bitSize int) Value {
	c := m.C
	bad := func() Value { return Tuple{m.i64(0), m.newError("strconv: invalid syntax")} }
	if len(b) == 0 {
		return bad()
	}
	neg := false
	i := 0
	if m.Branch(c.Eq(b[0], m.b8('-'))) {
		neg, i = true, 1
	} else if m.Branch(c.Eq(b[0], m.b8('+'))) {
		i = 1
	}
	if i == len(b) {
		return bad()
	}
	is := func(t *smt.Term, lo, up byte) bool {
		return m.Branch(c.Or(c.Eq(t, m.b8(lo)), c.Eq(t, m.b8(up))))
	}
	if base == 0 {
		base = 10
		if m.Branch(c.Eq(b[i], m.b8('0'))) && len(b)-i >= 2 {
			switch {
			case is(b[i+1], 'x', 'X'):
				base, i = 16, i+2
			case is(b[i+1], 'b', 'B'):
				base, i = 2, i+2
			case is(b[i+1], 'o', 'O'):
				base, i = 8, i+2
			default:
				base, i = 8, i+1
			}
			if i == len(b) {
				return bad()
			}
		}
	}
	if len(b)-i > 15 {
		m.unsupported("parseBase: more than 15 symbolic digits")
	}
	val := c.Const(0, 64)
	for ; i < len(b); i++ {
		ch := b[i]
		if m.Branch(c.Eq(ch, m.b8('_'))) {
			m.unsupported("parseBase: underscore in a base-prefixed literal")
		}
		var dig *smt.Term
		switch {
		case m.Branch(c.And(c.Ule(m.b8('0'), ch), c.Ule(ch, m.b8('9')))):
			dig = c.Sub(ch, m.b8('0'))
		case m.Branch(c.And(c.Ule(m.b8('a'), ch), c.Ule(ch, m.b8('z')))):
			dig = c.Add(c.Sub(ch, m.b8('a')), m.b8(10))
		case m.Branch(c.And(c.Ule(m.b8('A'), ch), c.Ule(ch, m.b8('Z')))):
			dig = c.Add(c.Sub(ch, m.b8('A')), m.b8(10))
		default:
			return bad()
		}
		if !m.Branch(c.Ult(dig, m.b8(byte(base)))) {
			return bad()
		}
		val = c.Add(c.Mul(val, c.Const(uint64(base), 64)), c.Zext(dig, 64))
	}
	if neg {
		val = c.Neg(val)
	}
	if bitSize < 64 {
		lim := int64(1) << uint(bitSize-1)
		in := c.And(c.Sle(m.i64(-lim), val), c.Slt(val, m.i64(lim)))
		if !m.Branch(in) {
			return Tuple{c.Ite(c.Slt(val, m.i64(0)), m.i64(-lim), m.i64(lim-1)), m.newError("strconv: value out of range")}
		}
	}
	return Tuple{val, Iface{}}
}

type bufState struct{ b []*smt.Term }

func (m *Machine) buffer(p *Value) *bufState {
	key := m.addrKey("buf", p)
	if b, ok := m.env[key].(*bufState); ok {
		return b
	}
	b := &bufState{}
	m.env[key] = b
	return b
}

// binaryBytes serialises fixed-size data as encoding/binary does.
func (m *Machine) binaryBytes(t types.Type, v Value, big bool) ([]*smt.Term, bool) {
	switch u := t.Underlying().(type) {
	case *types.Basic:
		if u.Info()&types.IsInteger != 0 && u.Kind() != types.Int && u.Kind() != types.Uint && u.Kind() != types.Uintptr {
			x := v.(*smt.Term)
			n := x.W / 8
			out := make([]*smt.Term, n)
			for i := 0; i < n; i++ {
				byteT := m.C.Extract(x, 8*i+7, 8*i)
				if big {
					out[n-1-i] = byteT
				} else {
					out[i] = byteT
				}
			}
			return out, true
		}
		if u.Info()&types.IsBoolean != 0 {
			return []*smt.Term{m.C.Ite(v.(*smt.Term), m.b8(1), m.b8(0))}, true
		}
	case *types.Array:
		var out []*smt.Term
		for _, e := range v.(Array) {
			bs, ok := m.binaryBytes(u.Elem(), e, big)
			if !ok {
				return nil, false
			}
			out = append(out, bs...)
		}
		return out, true
	case *types.Slice:
		s := v.(Slice)
		var out []*smt.Term
		for i := 0; i < s.Len; i++ {
			bs, ok := m.binaryBytes(u.Elem(), *s.at(i), big)
			if !ok {
				return nil, false
			}
			out = append(out, bs...)
		}
		return out, true
	case *types.Pointer:
		p := v.(*Value)
		if p == nil {
			return nil, false
		}
		return m.binaryBytes(u.Elem(), *p, big)
	case *types.Struct:
		var out []*smt.Term
		for i, e := range v.(Struct) {
			bs, ok := m.binaryBytes(u.Field(i).Type(), e, big)
			if !ok {
				return nil, false
			}
			out = append(out, bs...)
		}
		return out, true
	}
	return nil, false
}

// ---------- locks ----------

func (m *Machine) lockState(p *Value) *lockState {
	if l, ok := m.locks[p]; ok {
		return l
	}
	l := &lockState{name: fmt.Sprintf("L%d", len(m.locks))}
	m.locks[p] = l
	m.env["lockOrder"] = append(m.lockOrder(), l)
	return l
}

func (m *Machine) lockOrder() []*lockState {
	l, _ := m.env["lockOrder"].([]*lockState)
	return l
}

func (m *Machine) curThreadID() int {
	if s := m.sched(); s != nil && s.cur != nil {
		return s.cur.id
	}
	return 0
}

func (m *Machine) lock(fr *frame, p *Value, read bool) {
	if p == nil {
		fr.goPanic("nil dereference", "Lock on nil mutex")
	}
	l := m.lockState(p)
	me := m.curThreadID()
	if m.sched() != nil {
		if !read && l.held == 1 && l.owner == me {
			m.abort(abBlocked, "Lock of a mutex that this thread already holds (self-deadlock) at %s", fr.site())
		}
		site := fr.site()
		if read {
			m.yield(func() bool { return l.held <= 0 }, "RLock at "+site)
		} else {
			m.yield(func() bool { return l.held == 0 }, "Lock at "+site)
		}
	}
	if read {
		if l.held > 0 {
			m.abort(abBlocked, "RLock while write-locked at %s", fr.site())
		}
		l.held--
		return
	}
	if l.held != 0 {
		m.abort(abBlocked, "Lock of a mutex that is already held (self-deadlock) at %s; taken at %v", fr.site(), l.holders)
	}
	l.held = 1
	l.owner = me
	l.holders = append(l.holders, fr.site())
}

func (m *Machine) unlock(fr *frame, p *Value, read bool) {
	if p == nil {
		fr.goPanic("nil dereference", "Unlock on nil mutex")
	}
	l := m.lockState(p)
	if read {
		if l.held >= 0 {
			panic(&GoPanic{Class: "fatal: RUnlock of unlocked RWMutex", Site: fr.site()})
		}
		l.held++
	} else {
		if l.held != 1 {
			panic(&GoPanic{Class: "fatal: unlock of unlocked mutex", Site: fr.site()})
		}
		l.held = 0
		l.holders = nil
	}
	if m.sched() != nil {
		m.yield(nil, "")
	}
}

func (m *Machine) heldLocks() []*lockState {
	var out []*lockState
	for _, l := range m.lockOrder() {
		if l.held != 0 {
			out = append(out, l)
		}
	}
	return out
}

func (m *Machine) syncMap(p *Value) *Map {
	key := m.addrKey("syncmap", p)
	if mp, ok := m.env[key].(*Map); ok {
		return mp
	}
	mp := &Map{KT: types.NewInterfaceType(nil, nil), VT: types.NewInterfaceType(nil, nil)}
	m.env[key] = mp
	return mp
}

func (m *Machine) onSyncMap(fr *frame, p *Value, write bool) {
	if m.sched() != nil {
		m.yield(nil, "")
	}
}

var _ = reflect.TypeOf
