package smt

import (
	"bufio"
	"fmt"
	"io"
	"os"
	"os/exec"
	"strconv"
	"strings"
	"time"
)

type Result int

const (
	Unsat Result = iota
	Sat
	Unknown
)

func (r Result) String() string { return [...]string{"unsat", "sat", "unknown"}[r] }

// Solver is one live solver process fed with SMT-LIB2 text.
type Solver struct {
	Name    string
	cmd     *exec.Cmd
	in      io.WriteCloser
	defined map[int]bool
	seq     int
	lines   chan string
	kind    string
	toMs    int
	Killed  int
	Crashes int
	Log     io.Writer // optional: full transcript
	// statistics
	NSat, NUnsat, NUnknown int
	Time                   time.Duration
	Errors                 []string
}

// Kind: "z3", "z3-new", "cvc5", "cvc5-int".
func NewSolver(kind string, timeoutMs int) (*Solver, error) {
	s := &Solver{Name: kind, kind: kind, toMs: timeoutMs}
	if err := s.start(); err != nil {
		return nil, err
	}
	return s, nil
}

func (s *Solver) start() error {
	var cmd *exec.Cmd
	kind, timeoutMs := s.kind, s.toMs
	switch kind {
	case "z3":
		cmd = exec.Command("/usr/bin/z3", "-in", "-smt2", fmt.Sprintf("-t:%d", timeoutMs))
	case "z3-new":
		cmd = exec.Command("z3-new", "-in", "-smt2", fmt.Sprintf("-t:%d", timeoutMs))
	case "cvc5":
		cmd = exec.Command("cvc5", "--lang=smt2", "--incremental", "--produce-models", fmt.Sprintf("--tlimit-per=%d", timeoutMs))
	case "cvc5-int":
		cmd = exec.Command("cvc5", "--lang=smt2", "--incremental", "--produce-models", "--solve-bv-as-int=sum", fmt.Sprintf("--tlimit-per=%d", timeoutMs))
	default:
		return fmt.Errorf("unknown solver kind %q", kind)
	}
	in, err := cmd.StdinPipe()
	if err != nil {
		return err
	}
	out, err := cmd.StdoutPipe()
	if err != nil {
		return err
	}
	cmd.Stderr = os.Stderr
	if err := cmd.Start(); err != nil {
		return err
	}
	s.cmd, s.in = cmd, in
	s.defined = map[int]bool{}
	s.lines = make(chan string, 1024)
	rd := bufio.NewReaderSize(out, 1<<20)
	ch := s.lines
	go func() {
		for {
			line, err := rd.ReadString('\n')
			line = strings.TrimSpace(line)
			if line != "" {
				ch <- line
			}
			if err != nil {
				close(ch)
				return
			}
		}
	}()
	s.send("(set-option :produce-models true)\n(set-logic ALL)\n")
	return nil
}

func (s *Solver) Close() {
	if s == nil || s.cmd == nil {
		return
	}
	s.in.Close()
	done := make(chan struct{})
	go func() { s.cmd.Wait(); close(done) }()
	select {
	case <-done:
	case <-time.After(2 * time.Second):
		s.cmd.Process.Kill()
	}
	s.cmd = nil
}

func (s *Solver) send(txt string) {
	if s.Log != nil {
		io.WriteString(s.Log, txt)
	}
	io.WriteString(s.in, txt)
}

func tname(t *Term) string { return "t" + strconv.Itoa(t.ID) }

// define emits define-fun / declare-const lines for t and its sub-terms.
func (s *Solver) define(t *Term, sb *strings.Builder) string {
	if t.Op == OConst {
		return constStr(t)
	}
	if s.defined[t.ID] {
		if t.Op == OVar {
			return t.Name
		}
		return tname(t)
	}
	// iterative post-order to avoid deep recursion on long chains
	type fr struct {
		t *Term
		i int
	}
	stack := []fr{{t, 0}}
	for len(stack) > 0 {
		f := &stack[len(stack)-1]
		if f.t.Op == OConst || s.defined[f.t.ID] {
			stack = stack[:len(stack)-1]
			continue
		}
		if f.i < len(f.t.Args) {
			a := f.t.Args[f.i]
			f.i++
			if a.Op != OConst && !s.defined[a.ID] {
				stack = append(stack, fr{a, 0})
			}
			continue
		}
		x := f.t
		stack = stack[:len(stack)-1]
		s.defined[x.ID] = true
		if x.Op == OVar {
			fmt.Fprintf(sb, "(declare-const %s %s)\n", x.Name, sortName(x.W))
			continue
		}
		ref := func(a *Term) string {
			if a.Op == OConst {
				return constStr(a)
			}
			if a.Op == OVar {
				return a.Name
			}
			return tname(a)
		}
		fmt.Fprintf(sb, "(define-fun %s () %s %s)\n", tname(x), sortName(x.W), x.head(ref))
	}
	if t.Op == OVar {
		return t.Name
	}
	return tname(t)
}

var errCrashed = fmt.Errorf("solver process exited")

var errWatchdog = fmt.Errorf("solver watchdog: no answer within the hard time limit; process killed")

func (s *Solver) readLine() (string, error) {
	limit := time.Duration(2*s.toMs+10000) * time.Millisecond
	select {
	case line, ok := <-s.lines:
		if !ok {
			// the solver process exited (crash): restart on the next query
			s.Crashes++
			if s.cmd != nil {
				s.cmd.Wait()
			}
			s.cmd = nil
			return "", errCrashed
		}
		return line, nil
	case <-time.After(limit):
		// the soft timeout was not honoured: kill and restart
		s.Killed++
		if s.cmd != nil && s.cmd.Process != nil {
			s.cmd.Process.Kill()
			s.cmd.Wait()
		}
		s.cmd = nil
		return "", errWatchdog
	}
}

// Check asks whether the conjunction of assertions is satisfiable. If it is
// and wantModel is non-nil, the model values of those variables are returned.
func (s *Solver) Check(assertions []*Term, modelVars []*Term) (Result, []uint64) {
	t0 := time.Now()
	defer func() { s.Time += time.Since(t0) }()
	if s.cmd == nil {
		if err := s.start(); err != nil {
			s.Errors = append(s.Errors, "restart failed: "+err.Error())
			s.NUnknown++
			return Unknown, nil
		}
	}
	var sb strings.Builder
	names := make([]string, 0, len(assertions))
	for _, a := range assertions {
		if a.IsFalse() {
			s.NUnsat++
			return Unsat, nil
		}
	}
	for _, a := range assertions {
		if a.IsTrue() {
			continue
		}
		names = append(names, s.define(a, &sb))
	}
	vnames := make([]string, len(modelVars))
	for i, v := range modelVars {
		vnames[i] = s.define(v, &sb)
	}
	sb.WriteString("(push 1)\n")
	for _, n := range names {
		fmt.Fprintf(&sb, "(assert %s)\n", n)
	}
	sb.WriteString("(check-sat)\n")
	s.seq++
	marker := fmt.Sprintf("@@%d", s.seq)
	fmt.Fprintf(&sb, "(echo \"%s\")\n", marker)
	s.send(sb.String())
	res := Unknown
	got := false
	for {
		line, err := s.readLine()
		if err != nil {
			if err != errWatchdog && err != errCrashed {
				s.Errors = append(s.Errors, "solver died: "+err.Error()+" "+line)
			}
			res = Unknown
			s.NUnknown++
			return res, nil
		}
		if strings.Contains(line, marker) {
			break
		}
		switch {
		case line == "sat" && !got:
			res, got = Sat, true
		case line == "unsat" && !got:
			res, got = Unsat, true
		case (line == "unknown" || strings.HasPrefix(line, "timeout")) && !got:
			res, got = Unknown, true
		default:
			s.Errors = append(s.Errors, line)
			res, got = Unknown, true
		}
	}
	var model []uint64
	if res == Sat && len(modelVars) > 0 {
		var q strings.Builder
		q.WriteString("(get-value (")
		for _, n := range vnames {
			q.WriteString(n)
			q.WriteByte(' ')
		}
		s.seq++
		marker = fmt.Sprintf("@@%d", s.seq)
		fmt.Fprintf(&q, "))\n(echo \"%s\")\n", marker)
		s.send(q.String())
		var txt strings.Builder
		for {
			line, err := s.readLine()
			if err != nil {
				if err != errWatchdog && err != errCrashed {
					s.Errors = append(s.Errors, "solver died: "+err.Error())
				}
				s.NUnknown++
				return Unknown, nil
			}
			if strings.Contains(line, marker) {
				break
			}
			txt.WriteString(line)
			txt.WriteByte(' ')
		}
		model = parseModel(txt.String())
		if strings.Contains(txt.String(), "(error") || len(model) != len(modelVars) {
			s.Errors = append(s.Errors, "get-value: "+txt.String())
			res = Unknown
			model = nil
		}
	}
	if s.Log != nil {
		fmt.Fprintf(s.Log, "; => %v (%.2fs)\n", res, time.Since(t0).Seconds())
	}
	s.send("(pop 1)\n")
	switch res {
	case Sat:
		s.NSat++
	case Unsat:
		s.NUnsat++
	default:
		s.NUnknown++
	}
	return res, model
}

// parseModel parses "((name #x..) (name #b..) (name true) ...)" into the
// list of values, in order.
func parseModel(txt string) []uint64 {
	var m []uint64
	txt = strings.NewReplacer("(", " ( ", ")", " ) ").Replace(txt)
	f := strings.Fields(txt)
	// skip the outer "("
	i := 1
	for i < len(f) {
		if f[i] != "(" {
			i++
			continue
		}
		// ( name value )   where name may itself be a constant literal
		if i+2 >= len(f) {
			break
		}
		val := f[i+2]
		switch {
		case strings.HasPrefix(val, "#x"):
			v, _ := strconv.ParseUint(val[2:], 16, 64)
			m = append(m, v)
			i += 4
		case strings.HasPrefix(val, "#b"):
			v, _ := strconv.ParseUint(val[2:], 2, 64)
			m = append(m, v)
			i += 4
		case val == "true":
			m = append(m, 1)
			i += 4
		case val == "false":
			m = append(m, 0)
			i += 4
		case val == "(" && i+4 < len(f) && f[i+3] == "_" && strings.HasPrefix(f[i+4], "bv"):
			v, _ := strconv.ParseUint(f[i+4][2:], 10, 64)
			m = append(m, v)
			i += 8
		default:
			return nil
		}
	}
	return m
}
