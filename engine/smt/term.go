// Package smt is a small hash-consed term DAG for fixed-width bit-vectors
// (width 1..64) and booleans, with constant folding, and an SMT-LIB2 printer.
package smt

import (
	"fmt"
	"math/bits"
	"strconv"
	"strings"
)

type Op uint8

const (
	OConst Op = iota
	OVar
	// bool
	ONot
	OAnd
	OOr
	OIte // ite(c,a,b) for both bool and bv
	OEq
	// bv arithmetic
	OAdd
	OSub
	OMul
	OUDiv
	OURem
	OSDiv
	OSRem
	OBAnd
	OBOr
	OBXor
	OBNot
	ONeg
	OShl
	OLShr
	OAShr
	// comparisons
	OUlt
	OUle
	OSlt
	OSle
	// width change
	OZext // val = new width
	OSext // val = new width
	OExtr // val = hi<<8|lo
	OConcat
)

var opNames = map[Op]string{
	ONot: "not", OAnd: "and", OOr: "or", OIte: "ite", OEq: "=",
	OAdd: "bvadd", OSub: "bvsub", OMul: "bvmul", OUDiv: "bvudiv", OURem: "bvurem",
	OSDiv: "bvsdiv", OSRem: "bvsrem", OBAnd: "bvand", OBOr: "bvor", OBXor: "bvxor",
	OBNot: "bvnot", ONeg: "bvneg", OShl: "bvshl", OLShr: "bvlshr", OAShr: "bvashr",
	OUlt: "bvult", OUle: "bvule", OSlt: "bvslt", OSle: "bvsle", OConcat: "concat",
}

// Term is an immutable DAG node. W==0 means Bool.
type Term struct {
	Op   Op
	W    int
	Args []*Term
	Val  uint64 // constant value (masked) / parameter for zext,sext,extract
	Name string // for OVar
	ID   int
	// NL is true if the term (transitively) contains a multiplication or
	// division whose operands are both non-constant.
	NL bool
}

// Ctx owns the hash-cons table.
type Ctx struct {
	rangeMemo map[*Term][3]int64
	varsMemo  map[*Term][]int
	tab       map[string]*Term
	n         int
	Vars      []*Term
	True      *Term
	False     *Term
}

func NewCtx() *Ctx {
	c := &Ctx{tab: map[string]*Term{}}
	c.True = c.mk(&Term{Op: OConst, W: 0, Val: 1})
	c.False = c.mk(&Term{Op: OConst, W: 0, Val: 0})
	return c
}

func mask(w int) uint64 {
	if w >= 64 {
		return ^uint64(0)
	}
	return (uint64(1) << uint(w)) - 1
}

func (c *Ctx) mk(t *Term) *Term {
	var sb strings.Builder
	sb.WriteByte(byte(t.Op))
	sb.WriteByte(byte(t.W))
	sb.WriteString(strconv.FormatUint(t.Val, 16))
	sb.WriteByte('|')
	sb.WriteString(t.Name)
	for _, a := range t.Args {
		sb.WriteByte(',')
		sb.WriteString(strconv.Itoa(a.ID))
	}
	k := sb.String()
	if e, ok := c.tab[k]; ok {
		return e
	}
	c.n++
	t.ID = c.n
	for _, a := range t.Args {
		if a.NL {
			t.NL = true
		}
	}
	switch t.Op {
	case OMul, OUDiv, OURem, OSDiv, OSRem:
		// NL marks queries that go to the integer-arithmetic back end first:
		// symbolic x symbolic products/quotients, and division or
		// multiplication by a constant that is not a power of two
		if !t.Args[0].IsConst() && !t.Args[1].IsConst() {
			t.NL = true
		} else if k := t.Args[1]; k.IsConst() && k.Val&(k.Val-1) != 0 && t.W > 8 {
			t.NL = true
		}
	case OAdd, OSub:
		// wide linear arithmetic over several unknowns: the integer back end
		// decides it at once where bit-blasting struggles
		if t.W >= 32 && !t.Args[0].IsConst() && !t.Args[1].IsConst() {
			t.NL = true
		}
	}
	c.tab[k] = t
	return t
}

func (t *Term) IsConst() bool { return t.Op == OConst }
func (t *Term) IsBool() bool  { return t.W == 0 }
func (t *Term) IsTrue() bool  { return t.Op == OConst && t.W == 0 && t.Val == 1 }
func (t *Term) IsFalse() bool { return t.Op == OConst && t.W == 0 && t.Val == 0 }

// Signed returns the constant as a sign-extended int64.
func (t *Term) Signed() int64 {
	if t.W >= 64 {
		return int64(t.Val)
	}
	v := t.Val
	if v&(uint64(1)<<uint(t.W-1)) != 0 {
		v |= ^mask(t.W)
	}
	return int64(v)
}

func (c *Ctx) Bool(b bool) *Term {
	if b {
		return c.True
	}
	return c.False
}

func (c *Ctx) Const(v uint64, w int) *Term {
	if w <= 0 || w > 64 {
		panic(fmt.Sprintf("smt: bad width %d", w))
	}
	return c.mk(&Term{Op: OConst, W: w, Val: v & mask(w)})
}

func (c *Ctx) Var(name string, w int) *Term {
	t := &Term{Op: OVar, W: w, Name: name}
	n0 := c.n
	r := c.mk(t)
	if c.n != n0 {
		c.Vars = append(c.Vars, r)
	}
	return r
}

func (c *Ctx) Not(a *Term) *Term {
	if a.IsConst() {
		return c.Bool(a.Val == 0)
	}
	if a.Op == ONot {
		return a.Args[0]
	}
	return c.mk(&Term{Op: ONot, Args: []*Term{a}})
}

func (c *Ctx) And(a, b *Term) *Term {
	if a.IsFalse() || b.IsFalse() {
		return c.False
	}
	if a.IsTrue() {
		return b
	}
	if b.IsTrue() {
		return a
	}
	if a == b {
		return a
	}
	return c.mk(&Term{Op: OAnd, Args: []*Term{a, b}})
}

func (c *Ctx) Or(a, b *Term) *Term {
	if a.IsTrue() || b.IsTrue() {
		return c.True
	}
	if a.IsFalse() {
		return b
	}
	if b.IsFalse() {
		return a
	}
	if a == b {
		return a
	}
	return c.mk(&Term{Op: OOr, Args: []*Term{a, b}})
}

func (c *Ctx) Implies(a, b *Term) *Term { return c.Or(c.Not(a), b) }

func (c *Ctx) Ite(cond, a, b *Term) *Term {
	if cond.IsTrue() {
		return a
	}
	if cond.IsFalse() {
		return b
	}
	if a == b {
		return a
	}
	if a.W == 0 {
		if a.IsTrue() && b.IsFalse() {
			return cond
		}
		if a.IsFalse() && b.IsTrue() {
			return c.Not(cond)
		}
	}
	return c.mk(&Term{Op: OIte, W: a.W, Args: []*Term{cond, a, b}})
}

func (c *Ctx) Eq(a, b *Term) *Term {
	if a.W != b.W {
		panic(fmt.Sprintf("smt: Eq width mismatch %d %d", a.W, b.W))
	}
	if a == b {
		return c.True
	}
	if a.IsConst() && b.IsConst() {
		return c.Bool(a.Val == b.Val)
	}
	if a.W == 0 {
		if a.IsTrue() {
			return b
		}
		if b.IsTrue() {
			return a
		}
		if a.IsFalse() {
			return c.Not(b)
		}
		if b.IsFalse() {
			return c.Not(a)
		}
	}
	// zext(x)==const where const doesn't fit => false
	if b.IsConst() && a.Op == OZext {
		in := a.Args[0]
		if b.Val&^mask(in.W) != 0 {
			return c.False
		}
		return c.Eq(in, c.Const(b.Val, in.W))
	}
	if a.IsConst() && b.Op == OZext {
		return c.Eq(b, a)
	}
	// ite(c, k1, k2) == k  with constants
	if b.IsConst() && a.Op == OIte && a.Args[1].IsConst() && a.Args[2].IsConst() {
		return c.Ite(a.Args[0], c.Eq(a.Args[1], b), c.Eq(a.Args[2], b))
	}
	if a.IsConst() && b.Op == OIte {
		return c.Eq(b, a)
	}
	if a.ID > b.ID {
		a, b = b, a
	}
	return c.mk(&Term{Op: OEq, Args: []*Term{a, b}})
}

func (c *Ctx) bin(op Op, a, b *Term) *Term {
	if a.W != b.W || a.W == 0 {
		panic(fmt.Sprintf("smt: binop %d width mismatch %d %d", op, a.W, b.W))
	}
	w := a.W
	m := mask(w)
	if a.IsConst() && b.IsConst() {
		x, y := a.Val, b.Val
		var r uint64
		switch op {
		case OAdd:
			r = x + y
		case OSub:
			r = x - y
		case OMul:
			r = x * y
		case OUDiv:
			if y == 0 {
				r = m
			} else {
				r = x / y
			}
		case OURem:
			if y == 0 {
				r = x
			} else {
				r = x % y
			}
		case OSDiv:
			sx, sy := a.Signed(), b.Signed()
			if sy == 0 {
				if sx >= 0 {
					r = m
				} else {
					r = 1
				}
			} else if sy == -1 {
				r = uint64(-sx)
			} else {
				r = uint64(sx / sy)
			}
		case OSRem:
			sx, sy := a.Signed(), b.Signed()
			if sy == 0 {
				r = x
			} else if sy == -1 {
				r = 0
			} else {
				r = uint64(sx % sy)
			}
		case OBAnd:
			r = x & y
		case OBOr:
			r = x | y
		case OBXor:
			r = x ^ y
		case OShl:
			if y >= uint64(w) {
				r = 0
			} else {
				r = x << y
			}
		case OLShr:
			if y >= uint64(w) {
				r = 0
			} else {
				r = x >> y
			}
		case OAShr:
			sx := a.Signed()
			if y >= uint64(w) {
				if sx < 0 {
					r = m
				} else {
					r = 0
				}
			} else {
				r = uint64(sx >> y)
			}
		default:
			panic("smt: bad const binop")
		}
		return c.Const(r, w)
	}
	// identities
	switch op {
	case OAdd:
		if a.IsConst() && a.Val == 0 {
			return b
		}
		if b.IsConst() && b.Val == 0 {
			return a
		}
		// (x + k1) + k2
		if b.IsConst() && a.Op == OAdd && a.Args[1].IsConst() {
			return c.bin(OAdd, a.Args[0], c.Const(a.Args[1].Val+b.Val, w))
		}
	case OSub:
		if b.IsConst() && b.Val == 0 {
			return a
		}
		if a == b {
			return c.Const(0, w)
		}
		if a.IsConst() && a.Val == 0 {
			return c.Neg(b)
		}
		if b.IsConst() {
			return c.bin(OAdd, a, c.Const(-b.Val, w))
		}
	case OMul:
		if a.IsConst() && !b.IsConst() {
			a, b = b, a
		}
		if b.IsConst() {
			if b.Val == 0 {
				return b
			}
			if b.Val == 1 {
				return a
			}
		}
	case OUDiv, OSDiv:
		if b.IsConst() && b.Val == 1 {
			return a
		}
		// (x*k)/k == x whenever x*k does not wrap: state it as an ite so the
		// solver need not reason about the divider circuit in that case
		if op == OUDiv && b.IsConst() && b.Val > 1 && a.Op == OMul && a.Args[1] == b {
			x := a.Args[0]
			plain := c.mk(&Term{Op: op, W: w, Args: []*Term{a, b}})
			return c.Ite(c.Ule(x, c.Const(m/b.Val, w)), x, plain)
		}
	case OBAnd:
		if a.IsConst() && !b.IsConst() {
			a, b = b, a
		}
		if b.IsConst() {
			if b.Val == 0 {
				return b
			}
			if b.Val == m {
				return a
			}
			// zext(x) & k where k covers all of x's bits
			if a.Op == OZext && b.Val&mask(a.Args[0].W) == mask(a.Args[0].W) {
				return a
			}
			// mask of low bits of a zext: zext(x) & lowmask(n), n < xw
			if a.Op == OZext {
				in := a.Args[0]
				if b.Val <= mask(in.W) {
					return c.Zext(c.bin(OBAnd, in, c.Const(b.Val, in.W)), w)
				}
			}
		}
		if a == b {
			return a
		}
	case OBOr:
		if a.IsConst() && !b.IsConst() {
			a, b = b, a
		}
		if b.IsConst() {
			if b.Val == 0 {
				return a
			}
			if b.Val == m {
				return b
			}
		}
		if a == b {
			return a
		}
	case OBXor:
		if a.IsConst() && !b.IsConst() {
			a, b = b, a
		}
		if b.IsConst() && b.Val == 0 {
			return a
		}
		if a == b {
			return c.Const(0, w)
		}
	case OShl, OLShr, OAShr:
		if b.IsConst() && b.Val == 0 {
			return a
		}
		if a.IsConst() && a.Val == 0 {
			return a
		}
		if b.IsConst() && b.Val >= uint64(w) && op != OAShr {
			return c.Const(0, w)
		}
		// lshr(zext(x), k) with k >= width(x) => 0
		if op == OLShr && b.IsConst() && a.Op == OZext && b.Val >= uint64(a.Args[0].W) {
			return c.Const(0, w)
		}
	}
	return c.mk(&Term{Op: op, W: w, Args: []*Term{a, b}})
}

func (c *Ctx) Add(a, b *Term) *Term  { return c.bin(OAdd, a, b) }
func (c *Ctx) Sub(a, b *Term) *Term  { return c.bin(OSub, a, b) }
func (c *Ctx) Mul(a, b *Term) *Term  { return c.bin(OMul, a, b) }
func (c *Ctx) UDiv(a, b *Term) *Term { return c.bin(OUDiv, a, b) }
func (c *Ctx) URem(a, b *Term) *Term { return c.bin(OURem, a, b) }
func (c *Ctx) SDiv(a, b *Term) *Term { return c.bin(OSDiv, a, b) }
func (c *Ctx) SRem(a, b *Term) *Term { return c.bin(OSRem, a, b) }
func (c *Ctx) BAnd(a, b *Term) *Term { return c.bin(OBAnd, a, b) }
func (c *Ctx) BOr(a, b *Term) *Term  { return c.bin(OBOr, a, b) }
func (c *Ctx) BXor(a, b *Term) *Term { return c.bin(OBXor, a, b) }
func (c *Ctx) Shl(a, b *Term) *Term  { return c.bin(OShl, a, b) }
func (c *Ctx) LShr(a, b *Term) *Term { return c.bin(OLShr, a, b) }
func (c *Ctx) AShr(a, b *Term) *Term { return c.bin(OAShr, a, b) }

func (c *Ctx) BNot(a *Term) *Term {
	if a.IsConst() {
		return c.Const(^a.Val, a.W)
	}
	if a.Op == OBNot {
		return a.Args[0]
	}
	return c.mk(&Term{Op: OBNot, W: a.W, Args: []*Term{a}})
}

func (c *Ctx) Neg(a *Term) *Term {
	if a.IsConst() {
		return c.Const(-a.Val, a.W)
	}
	if a.Op == ONeg {
		return a.Args[0]
	}
	return c.mk(&Term{Op: ONeg, W: a.W, Args: []*Term{a}})
}

func (c *Ctx) cmp(op Op, a, b *Term) *Term {
	if a.W != b.W || a.W == 0 {
		panic(fmt.Sprintf("smt: cmp width mismatch %d %d", a.W, b.W))
	}
	if a.IsConst() && b.IsConst() {
		switch op {
		case OUlt:
			return c.Bool(a.Val < b.Val)
		case OUle:
			return c.Bool(a.Val <= b.Val)
		case OSlt:
			return c.Bool(a.Signed() < b.Signed())
		case OSle:
			return c.Bool(a.Signed() <= b.Signed())
		}
	}
	if a == b {
		return c.Bool(op == OUle || op == OSle)
	}
	// interval reasoning for ite-trees of constants (+/- constants)
	if (op == OSlt || op == OSle) && (a.IsConst() || b.IsConst()) {
		if a.IsConst() {
			if lo, hi, ok := c.srange(b, 0); ok {
				k := a.Signed()
				if op == OSlt {
					if k < lo {
						return c.True
					}
					if k >= hi {
						return c.False
					}
				} else {
					if k <= lo {
						return c.True
					}
					if k > hi {
						return c.False
					}
				}
			}
		} else {
			if lo, hi, ok := c.srange(a, 0); ok {
				k := b.Signed()
				if op == OSlt {
					if hi < k {
						return c.True
					}
					if lo >= k {
						return c.False
					}
				} else {
					if hi <= k {
						return c.True
					}
					if lo > k {
						return c.False
					}
				}
			}
		}
	}
	// comparisons of zext(x) against constants: reduce width (helps folding)
	if a.Op == OZext && b.IsConst() {
		in := a.Args[0]
		im := mask(in.W)
		neg := op == OSlt || op == OSle
		if !(neg && b.Signed() < 0) { // value of zext is non-negative
			switch op {
			case OUlt, OSlt:
				if b.Val > im {
					return c.True
				}
				return c.cmp(OUlt, in, c.Const(b.Val, in.W))
			case OUle, OSle:
				if b.Val >= im {
					return c.True
				}
				return c.cmp(OUle, in, c.Const(b.Val, in.W))
			}
		} else {
			return c.False // nonneg < negative const
		}
	}
	if b.Op == OZext && a.IsConst() {
		in := b.Args[0]
		im := mask(in.W)
		neg := op == OSlt || op == OSle
		if neg && a.Signed() < 0 {
			return c.True
		}
		switch op {
		case OUlt, OSlt:
			if a.Val >= im {
				return c.False
			}
			return c.cmp(OUlt, c.Const(a.Val, in.W), in)
		case OUle, OSle:
			if a.Val > im {
				return c.False
			}
			return c.cmp(OUle, c.Const(a.Val, in.W), in)
		}
	}
	if op == OUlt && b.IsConst() && b.Val == 0 {
		return c.False
	}
	if op == OUle && a.IsConst() && a.Val == 0 {
		return c.True
	}
	return c.mk(&Term{Op: op, Args: []*Term{a, b}})
}

func (c *Ctx) Ult(a, b *Term) *Term { return c.cmp(OUlt, a, b) }
func (c *Ctx) Ule(a, b *Term) *Term { return c.cmp(OUle, a, b) }
func (c *Ctx) Slt(a, b *Term) *Term { return c.cmp(OSlt, a, b) }
func (c *Ctx) Sle(a, b *Term) *Term { return c.cmp(OSle, a, b) }

func (c *Ctx) Zext(a *Term, w int) *Term {
	if w == a.W {
		return a
	}
	if w < a.W {
		return c.Extract(a, w-1, 0)
	}
	if a.IsConst() {
		return c.Const(a.Val, w)
	}
	if a.Op == OZext {
		return c.Zext(a.Args[0], w)
	}
	// zext(x*k) == zext(x)*k whenever the narrow product does not wrap
	if a.Op == OMul && a.Args[1].IsConst() && a.Args[1].Val > 1 && !a.Args[0].IsConst() {
		x, k := a.Args[0], a.Args[1].Val
		plain := c.mk(&Term{Op: OZext, W: w, Val: uint64(w), Args: []*Term{a}})
		return c.Ite(c.Ule(x, c.Const(mask(a.W)/k, a.W)), c.Mul(c.Zext(x, w), c.Const(k, w)), plain)
	}
	return c.mk(&Term{Op: OZext, W: w, Val: uint64(w), Args: []*Term{a}})
}

func (c *Ctx) Sext(a *Term, w int) *Term {
	if w == a.W {
		return a
	}
	if w < a.W {
		return c.Extract(a, w-1, 0)
	}
	if a.IsConst() {
		return c.Const(uint64(a.Signed()), w)
	}
	if a.Op == OZext { // sign bit is 0
		return c.Zext(a.Args[0], w)
	}
	if a.Op == OSext {
		return c.Sext(a.Args[0], w)
	}
	return c.mk(&Term{Op: OSext, W: w, Val: uint64(w), Args: []*Term{a}})
}

func (c *Ctx) Extract(a *Term, hi, lo int) *Term {
	if lo == 0 && hi == a.W-1 {
		return a
	}
	if hi < lo || hi >= a.W {
		panic("smt: bad extract")
	}
	w := hi - lo + 1
	if a.IsConst() {
		return c.Const(a.Val>>uint(lo), w)
	}
	switch a.Op {
	case OZext, OSext:
		in := a.Args[0]
		if hi < in.W {
			return c.Extract(in, hi, lo)
		}
		if a.Op == OZext && lo >= in.W {
			return c.Const(0, w)
		}
		if lo == 0 {
			if a.Op == OZext {
				return c.Zext(in, w)
			}
			return c.Sext(in, w)
		}
	case OExtr:
		ilo := int(a.Val & 0xff)
		return c.Extract(a.Args[0], hi+ilo, lo+ilo)
	case OConcat:
		lowW := a.Args[1].W
		if hi < lowW {
			return c.Extract(a.Args[1], hi, lo)
		}
		if lo >= lowW {
			return c.Extract(a.Args[0], hi-lowW, lo-lowW)
		}
	case OBAnd, OBOr, OBXor:
		if lo == 0 {
			return c.bin(a.Op, c.Extract(a.Args[0], hi, 0), c.Extract(a.Args[1], hi, 0))
		}
	case OAdd, OSub, OMul:
		if lo == 0 {
			return c.bin(a.Op, c.Extract(a.Args[0], hi, 0), c.Extract(a.Args[1], hi, 0))
		}
	case OIte:
		if a.Args[1].IsConst() || a.Args[2].IsConst() {
			return c.Ite(a.Args[0], c.Extract(a.Args[1], hi, lo), c.Extract(a.Args[2], hi, lo))
		}
	case OShl:
		// low bits of (x << k): if k constant
		if lo == 0 && a.Args[1].IsConst() {
			return c.bin(OShl, c.Extract(a.Args[0], hi, 0), c.Const(a.Args[1].Val, w))
		}
	case OLShr:
		// extract(hi,lo, zext(x) >> k) where everything stays inside
		if a.Args[1].IsConst() {
			k := int(a.Args[1].Val)
			if hi+k < a.W {
				return c.Extract(a.Args[0], hi+k, lo+k)
			}
		}
	case OAShr:
		if a.Args[1].IsConst() {
			k := int(a.Args[1].Val)
			if hi+k < a.W {
				return c.Extract(a.Args[0], hi+k, lo+k)
			}
		}
	}
	return c.mk(&Term{Op: OExtr, W: w, Val: uint64(hi)<<8 | uint64(lo), Args: []*Term{a}})
}

func (c *Ctx) Concat(hi, lo *Term) *Term {
	w := hi.W + lo.W
	if w > 64 {
		panic("smt: concat > 64")
	}
	if hi.IsConst() && lo.IsConst() {
		return c.Const(hi.Val<<uint(lo.W)|lo.Val, w)
	}
	if hi.IsConst() && hi.Val == 0 {
		return c.Zext(lo, w)
	}
	return c.mk(&Term{Op: OConcat, W: w, Args: []*Term{hi, lo}})
}

// ---------- printing ----------

func sortName(w int) string {
	if w == 0 {
		return "Bool"
	}
	return fmt.Sprintf("(_ BitVec %d)", w)
}

func constStr(t *Term) string {
	if t.W == 0 {
		if t.Val == 1 {
			return "true"
		}
		return "false"
	}
	if t.W%4 == 0 {
		return fmt.Sprintf("#x%0*x", t.W/4, t.Val)
	}
	return fmt.Sprintf("#b%0*b", t.W, t.Val)
}

// Head returns the SMT-LIB text of t with its arguments referenced by name.
func (t *Term) head(ref func(*Term) string) string {
	switch t.Op {
	case OConst:
		return constStr(t)
	case OVar:
		return t.Name
	case OZext:
		return fmt.Sprintf("((_ zero_extend %d) %s)", t.W-t.Args[0].W, ref(t.Args[0]))
	case OSext:
		return fmt.Sprintf("((_ sign_extend %d) %s)", t.W-t.Args[0].W, ref(t.Args[0]))
	case OExtr:
		return fmt.Sprintf("((_ extract %d %d) %s)", t.Val>>8, t.Val&0xff, ref(t.Args[0]))
	}
	var sb strings.Builder
	sb.WriteByte('(')
	sb.WriteString(opNames[t.Op])
	for _, a := range t.Args {
		sb.WriteByte(' ')
		sb.WriteString(ref(a))
	}
	sb.WriteByte(')')
	return sb.String()
}

// String renders the full term (no sharing) – for diagnostics only.
func (t *Term) String() string {
	var ref func(*Term) string
	ref = func(x *Term) string { return x.head(ref) }
	s := ref(t)
	if len(s) > 400 {
		return s[:400] + "..."
	}
	return s
}

// Eval evaluates t under an assignment of variables (by name).
func Eval(t *Term, env map[string]uint64, memo map[*Term]uint64) uint64 {
	if v, ok := memo[t]; ok {
		return v
	}
	var r uint64
	a := func(i int) uint64 { return Eval(t.Args[i], env, memo) }
	sg := func(v uint64, w int) int64 {
		if w < 64 && v&(1<<uint(w-1)) != 0 {
			v |= ^mask(w)
		}
		return int64(v)
	}
	b2u := func(b bool) uint64 {
		if b {
			return 1
		}
		return 0
	}
	switch t.Op {
	case OConst:
		r = t.Val
	case OVar:
		r = env[t.Name]
	case ONot:
		r = 1 - a(0)
	case OAnd:
		r = a(0) & a(1)
	case OOr:
		r = a(0) | a(1)
	case OIte:
		if a(0) == 1 {
			r = a(1)
		} else {
			r = a(2)
		}
	case OEq:
		r = b2u(a(0) == a(1))
	case OUlt:
		r = b2u(a(0) < a(1))
	case OUle:
		r = b2u(a(0) <= a(1))
	case OSlt:
		r = b2u(sg(a(0), t.Args[0].W) < sg(a(1), t.Args[0].W))
	case OSle:
		r = b2u(sg(a(0), t.Args[0].W) <= sg(a(1), t.Args[0].W))
	case OZext:
		r = a(0)
	case OSext:
		r = uint64(sg(a(0), t.Args[0].W))
	case OExtr:
		r = a(0) >> (t.Val & 0xff)
	case OConcat:
		r = a(0)<<uint(t.Args[1].W) | a(1)
	case OBNot:
		r = ^a(0)
	case ONeg:
		r = -a(0)
	default:
		// binary bv op: reuse constant folder
		c := NewCtx()
		x := c.Const(a(0), t.Args[0].W)
		y := c.Const(a(1), t.Args[1].W)
		r = c.bin(t.Op, x, y).Val
	}
	if t.W > 0 {
		r &= mask(t.W)
	}
	memo[t] = r
	return r
}

var _ = bits.Len

// VarsOf returns the sorted IDs of the variables occurring in t.
func (c *Ctx) VarsOf(t *Term) []int {
	if c.varsMemo == nil {
		c.varsMemo = map[*Term][]int{}
	}
	if v, ok := c.varsMemo[t]; ok {
		return v
	}
	var out []int
	switch t.Op {
	case OConst:
	case OVar:
		out = []int{t.ID}
	default:
		for _, a := range t.Args {
			out = mergeSorted(out, c.VarsOf(a))
		}
	}
	c.varsMemo[t] = out
	return out
}

func mergeSorted(a, b []int) []int {
	if len(a) == 0 {
		return b
	}
	if len(b) == 0 {
		return a
	}
	out := make([]int, 0, len(a)+len(b))
	i, j := 0, 0
	for i < len(a) && j < len(b) {
		switch {
		case a[i] < b[j]:
			out = append(out, a[i])
			i++
		case a[i] > b[j]:
			out = append(out, b[j])
			j++
		default:
			out = append(out, a[i])
			i++
			j++
		}
	}
	out = append(out, a[i:]...)
	out = append(out, b[j:]...)
	return out
}

// srange returns signed bounds of t when they follow from its shape alone
// (ite-trees with constant leaves, plus/minus small constants). Bounds are
// only reported when no wrap-around is possible.
func (c *Ctx) srange(t *Term, depth int) (lo, hi int64, ok bool) {
	if t.W != 64 || depth > 64 {
		return 0, 0, false
	}
	if c.rangeMemo == nil {
		c.rangeMemo = map[*Term][3]int64{}
	}
	if r, hit := c.rangeMemo[t]; hit {
		return r[0], r[1], r[2] == 1
	}
	defer func() {
		o := int64(0)
		if ok {
			o = 1
		}
		c.rangeMemo[t] = [3]int64{lo, hi, o}
	}()
	const lim = int64(1) << 40
	switch t.Op {
	case OConst:
		v := t.Signed()
		return v, v, true
	case OIte:
		l1, h1, ok1 := c.srange(t.Args[1], depth+1)
		l2, h2, ok2 := c.srange(t.Args[2], depth+1)
		if !ok1 || !ok2 {
			return 0, 0, false
		}
		if l2 < l1 {
			l1 = l2
		}
		if h2 > h1 {
			h1 = h2
		}
		return l1, h1, true
	case OAdd:
		l1, h1, ok1 := c.srange(t.Args[0], depth+1)
		l2, h2, ok2 := c.srange(t.Args[1], depth+1)
		if !ok1 || !ok2 || l1 < -lim || h1 > lim || l2 < -lim || h2 > lim {
			return 0, 0, false
		}
		return l1 + l2, h1 + h2, true
	case OZext:
		if t.Args[0].W <= 32 {
			return 0, int64(mask(t.Args[0].W)), true
		}
	}
	return 0, 0, false
}
