package main

func cmdCheck(args []string) int  { return 2 }
func cmdReplay(args []string) int { return 2 }
