package main

import (
	"bufio"
	"bytes"
	"crypto/sha256"
	"encoding/json"
	"flag"
	"fmt"
	"os"
	"os/exec"
	"path/filepath"
	"regexp"
	"sort"
	"strconv"
	"strings"
	"sync"
	"time"

	"golang.org/x/tools/go/ssa"

	"gosx/sx"
)

// harnessSpec is parsed from "//gosx:" directives above a ZZ_ function.
type harnessSpec struct {
	File     string // overlay path under /repo
	RelDir   string // package dir relative to repo root
	Func     string
	Property string
	Tier     string // quick | thorough
	Opts     map[string]string
	Validate bool // ZZV_ translator-validation harness (concrete)
	Shard    string
	Facts    bool // ZZF_ harness: native fact extraction + solver query over the tables
}

func (h *harnessSpec) Name() string { return h.Func + h.Shard }

var funcRe = regexp.MustCompile(`^func (ZZ[VF]?_[A-Za-z0-9_]+)\(\)`)

func scanHarnesses() ([]*harnessSpec, error) {
	var out []*harnessSpec
	err := filepath.Walk(harnessDir, func(p string, info os.FileInfo, err error) error {
		if err != nil || info.IsDir() || !strings.HasSuffix(p, ".go") || strings.HasSuffix(p, "_test.go") {
			return err
		}
		rel, _ := filepath.Rel(harnessDir, p)
		f, err := os.Open(p)
		if err != nil {
			return err
		}
		defer f.Close()
		sc := bufio.NewScanner(f)
		sc.Buffer(make([]byte, 1<<20), 1<<20)
		var pending map[string]string
		fileDef := map[string]string{}
		for sc.Scan() {
			line := sc.Text()
			if strings.HasPrefix(line, "//gosx:file ") {
				for _, kv := range strings.Fields(strings.TrimPrefix(line, "//gosx:file ")) {
					if i := strings.Index(kv, "="); i > 0 {
						fileDef[kv[:i]] = kv[i+1:]
					}
				}
				continue
			}
			if strings.HasPrefix(line, "//gosx:") {
				if pending == nil {
					pending = map[string]string{}
				}
				for _, kv := range strings.Fields(strings.TrimPrefix(line, "//gosx:")) {
					if i := strings.Index(kv, "="); i > 0 {
						pending[kv[:i]] = kv[i+1:]
					} else {
						pending[kv] = "true"
					}
				}
				continue
			}
			if m := funcRe.FindStringSubmatch(line); m != nil && pending != nil {
				for k, v := range fileDef {
					if _, ok := pending[k]; !ok {
						pending[k] = v
					}
				}
				h := &harnessSpec{File: filepath.Join(repoDir, rel), RelDir: filepath.Dir(rel), Func: m[1], Opts: pending,
					Property: pending["property"], Tier: pending["tier"], Validate: strings.HasPrefix(m[1], "ZZV_"), Facts: strings.HasPrefix(m[1], "ZZF_")}
				if h.Tier == "" {
					h.Tier = "quick"
				}
				out = append(out, h)
			}
			if !strings.HasPrefix(line, "//") {
				pending = nil
			}
		}
		return sc.Err()
	})
	return out, err
}

func (h *harnessSpec) options(tier string) sx.Options {
	o := sx.Options{}
	get := func(k string) string {
		if v, ok := h.Opts[k+"."+tier]; ok {
			return v
		}
		return h.Opts[k]
	}
	if v := get("unwind"); v != "" {
		o.Unwind, _ = strconv.Atoi(v)
	}
	if v := get("timeout"); v != "" {
		o.TimeoutMs, _ = strconv.Atoi(v)
	}
	if v := get("maxseconds"); v != "" {
		o.MaxSeconds, _ = strconv.Atoi(v)
	} else if tier == "thorough" {
		o.MaxSeconds = 3000
	} else {
		o.MaxSeconds = 900
	}
	if v := get("maxpaths"); v != "" {
		o.MaxPaths, _ = strconv.Atoi(v)
	}
	o.Solver = get("solver")
	o.NLSolver = get("nlsolver")
	o.StrictCap = get("strictcap") == "true"
	o.NonTermViolation = get("nonterm") == "violation"
	if v := get("maxsteps"); v != "" {
		o.MaxSteps, _ = strconv.Atoi(v)
	}
	if v := get("init"); v != "" {
		o.InitPkgs = strings.Split(v, ",")
	}
	o.Params = map[string]string{}
	for k, v := range h.Opts {
		if strings.HasPrefix(k, "p.") {
			o.Params[strings.TrimPrefix(k, "p.")] = v
		}
	}
	for k, v := range h.Opts {
		if strings.HasPrefix(k, "p.") && strings.HasSuffix(k, "."+tier) {
			o.Params[strings.TrimSuffix(strings.TrimPrefix(k, "p."), "."+tier)] = v
		}
	}
	return o
}

// ---- known findings ----

type knownEntry struct {
	Property string `json:"property"`
	ID       string `json:"id"`
	Status   string `json:"status"` // "known" | "fixed"
	Harness  string `json:"harness,omitempty"`
	Kind     string `json:"kind,omitempty"`
	Name     string `json:"name,omitempty"`
	Site     string `json:"site,omitempty"`
	Region   string `json:"region,omitempty"` // name of a Go predicate in the harness package
	What     string `json:"what"`
	Commit   string `json:"commit,omitempty"`
}

func loadKnown() ([]knownEntry, error) {
	b, err := os.ReadFile(filepath.Join(verifDir, "known_findings.json"))
	if err != nil {
		if os.IsNotExist(err) {
			return nil, nil
		}
		return nil, err
	}
	var ks []knownEntry
	if err := json.Unmarshal(b, &ks); err != nil {
		return nil, fmt.Errorf("known_findings.json: %v", err)
	}
	return ks, nil
}

// ---- running ----

type harnessResult struct {
	Spec     *harnessSpec
	E        *sx.Explorer
	Complete bool
	Wall     time.Duration
	TwinOK   bool
	TwinNote string
	Err      string
	Funcs    []funcInfo
}

type funcInfo struct {
	Name   string `json:"name"`
	Instrs int    `json:"ssa_instrs"`
	Hash   string `json:"src_sha,omitempty"`
	Calls  int    `json:"calls"`
}

func cmdCheck(args []string) int {
	fs := flag.NewFlagSet("check", flag.ExitOnError)
	tier := fs.String("tier", envOr("VERIF_TIER", "quick"), "quick|thorough")
	only := fs.String("only", "", "run only harnesses whose name contains this")
	workers := fs.Int("j", 16, "parallel harnesses")
	noReplay := fs.Bool("noreplay", false, "do not replay counterexamples natively")
	var id string
	if len(args) > 0 && !strings.HasPrefix(args[0], "-") {
		id = args[0]
		args = args[1:]
	}
	fs.Parse(args)
	if id == "" {
		fmt.Fprintln(os.Stderr, "usage: gosx check <ID> --tier quick|thorough")
		return 2
	}
	seed := 0
	if v := os.Getenv("VERIF_SEED"); v != "" {
		seed, _ = strconv.Atoi(v)
	}
	curTier = *tier
	t0 := time.Now()
	all, err := scanHarnesses()
	if err != nil {
		fmt.Fprintln(os.Stderr, err)
		return 2
	}
	var specs []*harnessSpec
	for _, h := range all {
		if h.Property != id {
			continue
		}
		if h.Tier == "thorough" && *tier != "thorough" {
			continue
		}
		if *only != "" && !strings.Contains(h.Func, *only) {
			continue
		}
		specs = append(specs, h)
	}
	if len(specs) == 0 {
		fmt.Fprintf(os.Stderr, "no harness for property %s\n", id)
		return 2
	}
	{
		var exp []*harnessSpec
		for _, h := range specs {
			ns, _ := strconv.Atoi(h.Opts["shards"])
			if ns <= 1 {
				exp = append(exp, h)
				continue
			}
			for i := 0; i < ns; i++ {
				c := *h
				c.Opts = map[string]string{}
				for k, v := range h.Opts {
					c.Opts[k] = v
				}
				c.Opts["p.shard"] = strconv.Itoa(i)
				c.Opts["p.nshards"] = strconv.Itoa(ns)
				c.Shard = fmt.Sprintf("#%d", i)
				exp = append(exp, &c)
			}
		}
		specs = exp
	}
	known, err := loadKnown()
	if err != nil {
		fmt.Fprintln(os.Stderr, err)
		return 2
	}
	ov, err := buildOverlay(false)
	if err != nil {
		fmt.Fprintln(os.Stderr, err)
		return 2
	}
	patSet := map[string]bool{"github.com/free5gc/chf/zzvx": true}
	for _, h := range specs {
		patSet["./"+h.RelDir] = true
		if v := h.Opts["pkgs"]; v != "" {
			for _, p := range strings.Split(v, ",") {
				patSet[p] = true
			}
		}
	}
	var pats []string
	for p := range patSet {
		pats = append(pats, p)
	}
	sort.Strings(pats)
	prog, err := sx.Load(repoDir, ov, pats...)
	if err != nil {
		// The tree does not build with the harness: broken, not a verdict.
		fmt.Fprintln(os.Stderr, "load failed:", err)
		return 2
	}
	loadWall := time.Since(t0)
	replayProg = prog

	var stopFlag int32
	results := make([]*harnessResult, len(specs))
	var wg sync.WaitGroup
	sem := make(chan struct{}, *workers)
	for i, h := range specs {
		wg.Add(1)
		go func(i int, h *harnessSpec) {
			defer wg.Done()
			sem <- struct{}{}
			defer func() { <-sem }()
			if h.Facts {
				results[i] = &harnessResult{Spec: h, TwinOK: true, TwinNote: "n/a (fact tables)", Complete: true}
				return
			}
			results[i] = runHarness(prog, h, *tier, known, &stopFlag)
		}(i, h)
	}
	wg.Wait()

	// fact-table harnesses
	factViolations := 0
	factCount := 0
	factQueries := map[string]int{}
	var factSamples []interface{}
	var factBroken []string
	for _, r := range results {
		if !r.Spec.Facts {
			continue
		}
		fs, n, q, _, err := runFacts(id, r.Spec)
		if err != nil {
			factBroken = append(factBroken, r.Spec.Func+": "+err.Error())
			continue
		}
		factCount += n
		for k, v := range q {
			factQueries[k] += v
		}
		for _, f := range fs {
			factViolations++
			path := writeFactsReplay(id, r.Spec, f)
			fmt.Printf("VIOLATION property=%s replay=%s\n  harness=%s kind=%s name=%q site=%s\n", id, path, r.Spec.Func, f.Kind, f.Name, f.Site)
			factSamples = append(factSamples, map[string]interface{}{"harness": r.Spec.Func, "finding": f})
		}
		factSamples = append(factSamples, map[string]interface{}{"harness": r.Spec.Func, "facts_extracted_natively": n, "queries": q})
	}

	// translator validation (concrete harnesses run natively and in the engine)
	nValidated, valErr := 0, ""
	for _, r := range results {
		if r.Spec.Validate && r.Err == "" && !r.Spec.Facts {
			n, err := validateNative(r)
			nValidated += n
			if err != nil {
				valErr += err.Error() + "; "
			}
		}
	}

	// report
	exit := 0
	violations := 0
	broken := []string{}
	var samples []interface{}
	var knownLines []string
	totalStates, totalInstr := 0, int64(0)
	q := map[string]int{}
	solverTime := 0.0
	var funcs []funcInfo
	seenFn := map[string]bool{}
	assertSites := map[string]int{}
	twins := map[string]string{}
	replays := 0
	bounds := map[string]interface{}{}
	for _, r := range results {
		if r.Spec.Facts {
			continue
		}
		if r.Err != "" {
			broken = append(broken, r.Spec.Func+": "+r.Err)
			continue
		}
		e := r.E
		st := e.Stats
		totalStates += st.Paths - st.Infeasible
		totalInstr += st.Instrs
		for _, s := range []*struct {
			a, b, c int
			t       time.Duration
		}{solverStats(e)} {
			q["sat"] += s.a
			q["unsat"] += s.b
			q["unknown"] += s.c
			solverTime += s.t.Seconds()
		}
		for k, v := range st.AssertReached {
			assertSites[r.Spec.Name()+":"+k] = v
		}
		for _, f := range r.Funcs {
			if !seenFn[f.Name] {
				seenFn[f.Name] = true
				funcs = append(funcs, f)
			}
		}
		twins[r.Spec.Name()] = r.TwinNote
		bounds[r.Spec.Name()] = map[string]interface{}{"unwind": e.Opt.Unwind, "params": e.Opt.Params, "paths": st.Paths, "complete": r.Complete}
		for _, s := range st.Samples {
			if len(samples) < 12 {
				samples = append(samples, s)
			}
		}
		if !r.Complete && !r.E.CutShort {
			broken = append(broken, r.Spec.Func+": exploration incomplete")
		}
		for _, s := range st.Inconclusive {
			broken = append(broken, r.Spec.Func+": inconclusive: "+s)
		}
		for msg, n := range st.UnsupportedMsgs {
			broken = append(broken, fmt.Sprintf("%s: unsupported x%d: %s", r.Spec.Func, n, msg))
		}
		for _, er := range solverErrors(e) {
			broken = append(broken, r.Spec.Func+": solver error: "+er)
		}
		if !r.TwinOK && !r.Spec.Validate {
			broken = append(broken, r.Spec.Func+": vacuous: "+r.TwinNote)
		}
		for _, k := range e.Order {
			f := e.Findings[k]
			path, verdict := "", "not replayed"
			if !*noReplay {
				path, verdict = replayFinding(id, r.Spec, f)
				replays++
			} else {
				path = writeReplayFile(id, r.Spec, f)
			}
			samples = append(samples, map[string]interface{}{"harness": r.Spec.Func, "finding": f, "replay": verdict})
			switch {
			case *noReplay || verdict == "reproduced":
				violations++
				fmt.Printf("VIOLATION property=%s replay=%s\n", id, path)
				fmt.Printf("  harness=%s kind=%s name=%q site=%s\n", r.Spec.Name(), f.Kind, f.Name, f.Site)
				exit = 1
			default:
				broken = append(broken, fmt.Sprintf("%s: SPURIOUS counterexample (%s): %s %q @ %s replay=%s", r.Spec.Func, verdict, f.Kind, f.Name, f.Site, path))
			}
		}
		var kids []string
		for kid := range e.KnownSeen {
			kids = append(kids, kid)
		}
		sort.Strings(kids)
		for _, kid := range kids {
			f := e.KnownSeen[kid]
			what := kid
			for _, k := range known {
				if k.ID == kid {
					what = k.ID + ": " + k.What
				}
			}
			knownLines = append(knownLines, fmt.Sprintf("KNOWN-FINDING: property=%s %s", id, what))
			samples = append(samples, map[string]interface{}{"harness": r.Spec.Func, "known_finding": kid, "witness": f.Inputs, "site": f.Site})
		}
	}
	violations += factViolations
	if factViolations > 0 {
		exit = 1
	}
	broken = append(broken, factBroken...)
	samples = append(samples, factSamples...)
	for k, v := range factQueries {
		q[k] += v
	}
	nValidated += factCount
	sort.Strings(knownLines)
	seenLine := map[string]bool{}
	for _, l := range knownLines {
		if !seenLine[l] {
			fmt.Println(l)
			seenLine[l] = true
		}
	}
	if valErr != "" {
		broken = append(broken, "translator validation: "+valErr)
	}
	for _, b := range broken {
		fmt.Println("BROKEN:", b)
	}
	if len(broken) > 0 && exit == 0 {
		exit = 2
	}
	if len(samples) == 0 {
		samples = append(samples, map[string]interface{}{"note": "no path completed"})
	}
	sort.Slice(funcs, func(i, j int) bool { return funcs[i].Name < funcs[j].Name })
	wall := time.Since(t0).Seconds()
	ev := map[string]interface{}{
		"property_id": id, "tier": *tier, "seed": seed, "level": "model_checking", "wall_s": wall, "violations": violations,
		"coverage": map[string]interface{}{
			"states": max(totalStates, 0), "transitions": totalInstr,
			"traces_validated_against_impl": nValidated + replays,
			"samples":                       samples,
			"functions_encoded":             funcs,
			"bounds":                        bounds,
			"queries":                       q,
			"solver":                        "z3 4.8.12 (/usr/bin/z3 -in) for bit-vector queries; cvc5 1.0 --solve-bv-as-int=sum for queries with symbolic*symbolic mul/div",
			"solver_time_s":                 solverTime,
			"load_s":                        loadWall.Seconds(),
			"assert_sites_reached":          assertSites,
			"reachability_twins":            twins,
			"harnesses":                     len(results),
			"known_findings_witnessed":      len(seenLine),
			"broken":                        broken,
			"explanation":                   "bounded symbolic execution of the SSA of /repo's working tree; states = feasible paths completed, transitions = SSA instructions interpreted",
		},
		"assumptions": assumptionsFor(id, results),
	}
	os.MkdirAll(filepath.Join(verifDir, "evidence"), 0o755)
	b, _ := json.MarshalIndent(ev, "", " ")
	os.WriteFile(filepath.Join(verifDir, "evidence", id+".json"), b, 0o644)
	fmt.Printf("property %s tier %s: harnesses=%d paths=%d instrs=%d queries=%v violations=%d known=%d broken=%d wall=%.1fs\n",
		id, *tier, len(results), totalStates, totalInstr, q, violations, len(seenLine), len(broken), wall)
	return exit
}

func solverStats(e *sx.Explorer) *struct {
	a, b, c int
	t       time.Duration
} {
	r := &struct {
		a, b, c int
		t       time.Duration
	}{}
	for _, s := range e.Solvers() {
		r.a += s.NSat
		r.b += s.NUnsat
		r.c += s.NUnknown
		r.t += s.Time
	}
	return r
}

func solverErrors(e *sx.Explorer) []string {
	var out []string
	for _, s := range e.Solvers() {
		out = append(out, s.Errors...)
	}
	return out
}

func runHarness(prog *sx.Program, h *harnessSpec, tier string, known []knownEntry, stop *int32) (res *harnessResult) {
	res = &harnessResult{Spec: h}
	defer func() {
		if r := recover(); r != nil {
			res.Err = fmt.Sprintf("engine panic: %v", r)
		}
	}()
	pkgPath := "github.com/free5gc/chf/" + filepath.ToSlash(h.RelDir)
	fn := prog.Func(pkgPath, h.Func)
	if fn == nil {
		res.Err = "function not found in " + pkgPath
		return
	}
	opt := h.options(tier)
	// twin first (cheap): every assertion replaced by false must be violated
	if !h.Validate {
		topt := opt
		topt.Twin = true
		topt.StopOnFinding = true
		te := sx.NewExplorer(prog, h.Func, topt)
		te.Run(fn)
		te.Close()
		if len(te.Findings) > 0 {
			res.TwinOK = true
			res.TwinNote = "violated (as required)"
		} else {
			res.TwinNote = "twin with assert(false) was NOT violated: no assertion reachable"
		}
	}
	opt.Stop = stop
	e := sx.NewExplorer(prog, h.Func, opt)
	for _, k := range known {
		if k.Status != "known" || (k.Harness != "" && k.Harness != h.Func) || k.Property != h.Property {
			continue
		}
		r := &sx.Region{ID: k.ID, Kind: k.Kind, Name: k.Name, Site: k.Site, PredStr: k.Region}
		if k.Region != "" {
			r.Pred = prog.Func(pkgPath, k.Region)
			if r.Pred == nil {
				res.Err = "known_findings.json: region predicate " + k.Region + " not found in " + pkgPath
				return
			}
		}
		e.Regions = append(e.Regions, r)
	}
	t1 := time.Now()
	res.Complete = e.Run(fn)
	e.Close()
	res.Wall = time.Since(t1)
	res.E = e
	for f, n := range e.Stats.Funcs {
		if f.Pkg == nil || !strings.HasPrefix(f.Pkg.Pkg.Path(), "github.com/free5gc/chf") || strings.HasPrefix(f.Name(), "ZZ") {
			continue
		}
		res.Funcs = append(res.Funcs, funcInfo{Name: f.String(), Instrs: countInstrs(f), Hash: prog.SrcHash(f), Calls: n})
	}
	return
}

func countInstrs(f *ssa.Function) int {
	n := 0
	for _, b := range f.Blocks {
		n += len(b.Instrs)
	}
	return n
}

// ---- replay ----

type replayFile struct {
	Property string            `json:"property"`
	Pkg      string            `json:"pkg"` // relative package dir
	Func     string            `json:"func"`
	Expect   sx.Finding        `json:"expect"`
	Inputs   []sx.InputVal     `json:"inputs"`
	Params   map[string]string `json:"params,omitempty"`
	Mode     string            `json:"mode"` // "native" (go test against the real build) | "engine" (concrete re-execution in gosx with the same stubs)
	Opts     map[string]string `json:"opts,omitempty"`
}

var curTier = "quick"

func writeReplayFile(id string, h *harnessSpec, f *sx.Finding) string {
	mode := h.Opts["replay"]
	if mode == "" {
		mode = "native"
	}
	rf := replayFile{Property: id, Pkg: h.RelDir, Func: h.Func, Expect: *f, Inputs: f.Inputs, Params: h.options(curTier).Params, Mode: mode, Opts: h.Opts}
	b, _ := json.MarshalIndent(rf, "", " ")
	sum := sha256.Sum256(b)
	dir := filepath.Join(verifDir, "replays")
	os.MkdirAll(dir, 0o755)
	p := filepath.Join(dir, fmt.Sprintf("%s-%s-%x.json", id, h.Func, sum[:4]))
	os.WriteFile(p, b, 0o644)
	return p
}

func replayFinding(id string, h *harnessSpec, f *sx.Finding) (path, verdict string) {
	path = writeReplayFile(id, h, f)
	verdict, _ = runReplay(path, false)
	return
}

func cmdReplay(args []string) int {
	if len(args) < 1 {
		fmt.Fprintln(os.Stderr, "usage: gosx replay <file.json>")
		return 2
	}
	verdict, out := runReplay(args[0], true)
	fmt.Println(out)
	fmt.Println("replay verdict:", verdict)
	if verdict == "reproduced" {
		return 1
	}
	if verdict == "not reproduced" {
		return 0
	}
	return 2
}

func scratchDir() string {
	d := os.Getenv("VERIF_SCRATCH")
	if d == "" {
		d = filepath.Join(verifDir, "scratch")
	}
	os.MkdirAll(d, 0o755)
	return d
}

// nativeTest runs `go test` in /repo for pkgRel with the native overlay plus
// an extra generated test file.
func nativeTest(pkgRel, testSrc, runPat string, env []string, timeout time.Duration) (string, error) {
	ov, err := buildOverlay(true)
	if err != nil {
		return "", err
	}
	sd, err := os.MkdirTemp(scratchDir(), "replay")
	if err != nil {
		return "", err
	}
	defer os.RemoveAll(sd)
	repl := map[string]string{}
	i := 0
	for virt, content := range ov {
		real := filepath.Join(sd, fmt.Sprintf("f%d_%s", i, filepath.Base(virt)))
		i++
		if err := os.WriteFile(real, content, 0o644); err != nil {
			return "", err
		}
		repl[virt] = real
	}
	tf := filepath.Join(sd, "zz_replay_test.go")
	os.WriteFile(tf, []byte(testSrc), 0o644)
	repl[filepath.Join(repoDir, pkgRel, "zz_replay_test.go")] = tf
	ob, _ := json.Marshal(map[string]interface{}{"Replace": repl})
	of := filepath.Join(sd, "overlay.json")
	os.WriteFile(of, ob, 0o644)
	cmd := exec.Command("go", "test", "-vet=off", "-count=1", "-overlay", of, "-run", runPat, "-v", "-timeout", fmt.Sprint(timeout), "./"+pkgRel)
	cmd.Dir = repoDir
	cmd.Env = append(os.Environ(), "GOFLAGS=-mod=mod", "GOPROXY=off", "GOSUMDB=off", "GOTOOLCHAIN=local")
	cmd.Env = append(cmd.Env, env...)
	var buf bytes.Buffer
	cmd.Stdout = &buf
	cmd.Stderr = &buf
	err = cmd.Run()
	return buf.String(), err
}

func pkgName(relDir string) string {
	// read package clause from any harness file in that dir
	files, _ := filepath.Glob(filepath.Join(harnessDir, relDir, "*.go"))
	for _, f := range files {
		b, _ := os.ReadFile(f)
		for _, l := range strings.Split(string(b), "\n") {
			if strings.HasPrefix(l, "package ") {
				return strings.TrimSpace(strings.TrimPrefix(l, "package "))
			}
		}
	}
	return filepath.Base(relDir)
}

func runReplay(path string, verbose bool) (verdict, output string) {
	b, err := os.ReadFile(path)
	if err != nil {
		return "error: " + err.Error(), ""
	}
	var rf replayFile
	if err := json.Unmarshal(b, &rf); err != nil {
		return "error: " + err.Error(), ""
	}
	if rf.Mode == "engine" || strings.HasPrefix(rf.Expect.Name, "reslice beyond len") {
		// (a reslice beyond len but within cap raises no Go runtime error, so
		// it has no native manifestation with the harness's spare capacity)
		return engineReplay(&rf)
	}
	abs, _ := filepath.Abs(path)
	testPkg, src := testSource(rf.Pkg, "TestZZReplay", fmt.Sprintf("vx.RunReplay(t, %q, %%s)", abs), rf.Func)
	out, _ := nativeTest(testPkg, src, "^TestZZReplay$", nil, 120*time.Second)
	verdict = "not reproduced"
	for _, l := range strings.Split(out, "\n") {
		l = strings.TrimSpace(l)
		if !strings.HasPrefix(l, "REPLAY-RESULT:") {
			continue
		}
		res := strings.TrimSpace(strings.TrimPrefix(l, "REPLAY-RESULT:"))
		switch rf.Expect.Kind {
		case "assert":
			if res == "assert "+strconv.Quote(rf.Expect.Name) {
				verdict = "reproduced"
			} else if strings.HasPrefix(res, "panic") && strings.Contains(rf.Expect.Site, " @ ") {
				// vx.Fail after a recovered panic
				verdict = "reproduced"
			}
		case "panic":
			if strings.HasPrefix(res, "panic") {
				verdict = "reproduced"
			}
		case "blocked":
			if strings.HasPrefix(res, "timeout") || strings.HasPrefix(res, "blocked") {
				verdict = "reproduced"
			}
		}
		if verdict != "reproduced" && !strings.HasPrefix(verdict, "not reproduced (") && res != "ok" {
			verdict = "not reproduced (native result: " + res + ")"
		}
	}
	if rf.Expect.Kind == "blocked" && strings.Contains(out, "test timed out") {
		verdict = "reproduced"
	}
	if !strings.Contains(out, "REPLAY-RESULT:") && verdict != "reproduced" {
		verdict = "error: native replay produced no result"
		verbose = true
	}
	if verbose {
		output = out
	}
	return
}

// validateNative runs a concrete ZZV_ harness natively and compares the
// emitted lines with the ones the engine produced.
func validateNative(r *harnessResult) (int, error) {
	testPkg, src := testSource(r.Spec.RelDir, "TestZZValidate", "vx.RunEmit(t, %s)", r.Spec.Func)
	out, _ := nativeTest(testPkg, src, "^TestZZValidate$", nil, 300*time.Second)
	var native []string
	for _, l := range strings.Split(out, "\n") {
		if i := strings.Index(l, "EMIT: "); i >= 0 {
			native = append(native, l[i+6:])
		}
	}
	eng := r.E.Emitted
	if len(native) == 0 {
		return 0, fmt.Errorf("%s: native run emitted nothing:\n%s", r.Spec.Func, tail(out, 30))
	}
	n := 0
	for i := range native {
		if i >= len(eng) || eng[i] != native[i] {
			e := "<missing>"
			if i < len(eng) {
				e = eng[i]
			}
			return n, fmt.Errorf("%s: translator disagreement at line %d: native %q engine %q", r.Spec.Func, i, native[i], e)
		}
		n++
	}
	if len(eng) != len(native) {
		return n, fmt.Errorf("%s: engine emitted %d lines, native %d", r.Spec.Func, len(eng), len(native))
	}
	return n, nil
}

func tail(s string, n int) string {
	ls := strings.Split(s, "\n")
	if len(ls) > n {
		ls = ls[len(ls)-n:]
	}
	return strings.Join(ls, "\n")
}

func assumptionsFor(id string, results []*harnessResult) []string {
	as := []string{
		"go/packages + go/ssa v0.29.0 faithfully represent the source the compiler builds",
		"gosx interpreter, reflect model and intrinsics (validated by ZZV_ translator-validation harnesses where present and by native replay of every alarm)",
		"bounds listed under coverage.bounds; nothing outside them is claimed",
	}
	seen := map[string]bool{}
	for _, r := range results {
		if r.E == nil {
			continue
		}
		for _, a := range r.E.Assumptions() {
			if !seen[a] {
				seen[a] = true
				as = append(as, a)
			}
		}
		if v := r.Spec.Opts["assume"]; v != "" && !seen[v] {
			seen[v] = true
			as = append(as, strings.ReplaceAll(v, "_", " "))
		}
	}
	return as
}

var replayProg *sx.Program

// engineReplay re-executes the harness inside gosx with every labelled input
// pinned to the recorded value (same SSA of /repo's working tree, same
// environment stubs) and reports whether the same obligation fails.
func engineReplay(rf *replayFile) (verdict, output string) {
	prog := replayProg
	if prog == nil {
		ov, err := buildOverlay(false)
		if err != nil {
			return "error: " + err.Error(), ""
		}
		pats := []string{"github.com/free5gc/chf/zzvx", "./" + rf.Pkg}
		if v := rf.Opts["pkgs"]; v != "" {
			pats = append(pats, strings.Split(v, ",")...)
		}
		prog, err = sx.Load(repoDir, ov, pats...)
		if err != nil {
			return "error: " + err.Error(), ""
		}
	}
	h := &harnessSpec{RelDir: rf.Pkg, Func: rf.Func, Opts: rf.Opts}
	if h.Opts == nil {
		h.Opts = map[string]string{}
	}
	opt := h.options(curTier)
	opt.Params = rf.Params
	opt.Fixed = map[string][]uint64{}
	for _, in := range rf.Inputs {
		opt.Fixed[in.Label] = in.Vals
	}
	opt.MaxSeconds = 120
	fn := prog.Func("github.com/free5gc/chf/"+filepath.ToSlash(rf.Pkg), rf.Func)
	if fn == nil {
		return "error: harness function not found", ""
	}
	e := sx.NewExplorer(prog, rf.Func, opt)
	e.Run(fn)
	e.Close()
	var sb strings.Builder
	for _, k := range e.Order {
		f := e.Findings[k]
		fmt.Fprintf(&sb, "concrete re-execution: %s %q @ %s\n", f.Kind, f.Name, f.Site)
		if f.Kind == rf.Expect.Kind && f.Name == rf.Expect.Name {
			verdict = "reproduced"
		}
	}
	if verdict == "" {
		verdict = "not reproduced"
	}
	return verdict, sb.String()
}

// testSource generates the native test file for harness fn of package dir
// pkgRel. A package that exists only in the overlay has no directory to run a
// test in, so its harness is called from a test placed in /repo/cmd (package
// main), which nothing imports.
func testSource(pkgRel, testName, callFmt, fn string) (testPkg, src string) {
	if st, err := os.Stat(filepath.Join(repoDir, pkgRel)); err == nil && st.IsDir() {
		return pkgRel, fmt.Sprintf(`package %s

import (
	"testing"

	vx "github.com/free5gc/chf/zzvx"
)

func %s(t *testing.T) { `+callFmt+` }
`, pkgName(pkgRel), testName, fn)
	}
	return "cmd", fmt.Sprintf(`package main

import (
	"testing"

	zzpkg "github.com/free5gc/chf/%s"
	vx "github.com/free5gc/chf/zzvx"
)

func %s(t *testing.T) { `+callFmt+` }
`, filepath.ToSlash(pkgRel), testName, "zzpkg."+fn)
}
