package main

import (
	"fmt"
	"os"
	"path/filepath"
	"strings"
	"time"

	"gosx/smt"
	"gosx/sx"
)

// "facts" harnesses (ZZF_*) run natively against the real code and emit
// tables; the property over the tables is then decided by the SMT solver: the
// tables become finite functions, the negated property is asserted over
// symbolic indices, and a model is a concrete witness (replayed by re-running
// the extraction).

type tagFact struct {
	where, name, gotype string
	found               bool
	code                uint64
	dtype               string
}

type avpFact struct {
	app          uint64
	name         string
	code, vendor uint64
	dtype        string
}

// compatible go-diameter carrier types for a dictionary data type
var carrierOK = map[string][]string{
	"Unsigned32":       {"Unsigned32"},
	"Unsigned64":       {"Unsigned64"},
	"Integer32":        {"Integer32"},
	"Integer64":        {"Integer64"},
	"Enumerated":       {"Enumerated", "Integer32"},
	"Time":             {"Time"},
	"UTF8String":       {"UTF8String", "OctetString"},
	"OctetString":      {"OctetString", "UTF8String"},
	"DiameterIdentity": {"DiameterIdentity", "OctetString"},
	"DiameterURI":      {"DiameterURI", "OctetString"},
	"Grouped":          {"struct", "Grouped"},
	"IPFilterRule":     {"IPFilterRule", "OctetString"},
	"Address":          {"Address", "OctetString"},
	"Float32":          {"Float32"},
	"Float64":          {"Float64"},
}

func runFacts(id string, h *harnessSpec) (findings []*sx.Finding, nfacts int, queries map[string]int, solverTime float64, err error) {
	testPkg, src := testSource(h.RelDir, "TestZZFacts", "vx.RunEmit(t, %s)", h.Func)
	out, _ := nativeTest(testPkg, src, "^TestZZFacts$", nil, 300*time.Second)
	var tags []tagFact
	var avps []avpFact
	for _, l := range strings.Split(out, "\n") {
		i := strings.Index(l, "EMIT: ")
		if i < 0 {
			continue
		}
		l = l[i+6:]
		switch {
		case strings.HasPrefix(l, "TAG "):
			f := strings.Split(l[4:], "|")
			if len(f) != 6 {
				continue
			}
			t := tagFact{where: f[0], name: f[1], gotype: f[2], found: f[3] == "true", dtype: f[5]}
			fmt.Sscan(f[4], &t.code)
			tags = append(tags, t)
		case strings.HasPrefix(l, "AVP "):
			f := strings.Split(l[4:], "|")
			if len(f) != 5 {
				continue
			}
			a := avpFact{name: f[1], dtype: f[4]}
			fmt.Sscan(f[0], &a.app)
			fmt.Sscan(f[2], &a.code)
			fmt.Sscan(f[3], &a.vendor)
			avps = append(avps, a)
		case strings.HasPrefix(l, "LOADERR"):
			findings = append(findings, &sx.Finding{Harness: h.Func, Kind: "assert", Name: "dictionary loads", Site: l})
		}
	}
	if len(tags) == 0 || len(avps) == 0 {
		return nil, 0, nil, 0, fmt.Errorf("fact extraction produced no tables:\n%s", tail(out, 25))
	}
	nfacts = len(tags) + len(avps)
	c := smt.NewCtx()
	s, e := smt.NewSolver("z3", 20000)
	if e != nil {
		return nil, 0, nil, 0, e
	}
	defer s.Close()
	const W = 16
	table := func(idx *smt.Term, n int, val func(i int) *smt.Term, w int) *smt.Term {
		var r *smt.Term
		if w == 0 {
			r = c.False
		} else {
			r = c.Const(0, w)
		}
		for i := n - 1; i >= 0; i-- {
			r = c.Ite(c.Eq(idx, c.Const(uint64(i), W)), val(i), r)
		}
		return r
	}
	// Q1: a tag whose AVP name is not defined
	t := c.Var("tag", W)
	inRange := c.Ult(t, c.Const(uint64(len(tags)), W))
	found := table(t, len(tags), func(i int) *smt.Term { return c.Bool(tags[i].found) }, 0)
	if r, v := s.Check([]*smt.Term{inRange, c.Not(found)}, []*smt.Term{t}); r == smt.Sat {
		tf := tags[v[0]]
		findings = append(findings, &sx.Finding{Harness: h.Func, Kind: "assert", Name: "every AVP name used by the message structures is defined in the loaded dictionaries",
			Site: fmt.Sprintf("%s uses avp:%q which application %d (and the base dictionary) do not define", tf.where, tf.name, 16777218)})
	} else if r == smt.Unknown {
		return nil, nfacts, nil, 0, fmt.Errorf("solver unknown on Q1")
	}
	// Q2: a defined tag whose Go carrier type cannot hold the dictionary type
	compat := table(t, len(tags), func(i int) *smt.Term {
		ok := false
		for _, g := range carrierOK[tags[i].dtype] {
			if g == tags[i].gotype {
				ok = true
			}
		}
		return c.Bool(ok || !tags[i].found)
	}, 0)
	if r, v := s.Check([]*smt.Term{inRange, found, c.Not(compat)}, []*smt.Term{t}); r == smt.Sat {
		tf := tags[v[0]]
		findings = append(findings, &sx.Finding{Harness: h.Func, Kind: "assert", Name: "the Go type of every field matches the data type of its AVP in the dictionary",
			Site: fmt.Sprintf("%s (avp %q) is carried as %s but the dictionary declares %s", tf.where, tf.name, tf.gotype, tf.dtype)})
	} else if r == smt.Unknown {
		return nil, nfacts, nil, 0, fmt.Errorf("solver unknown on Q2")
	}
	// Q3: two different AVP names of the application with the same (code, vendor)
	a, b := c.Var("a", W), c.Var("b", W)
	n := len(avps)
	code := func(x *smt.Term) *smt.Term {
		return table(x, n, func(i int) *smt.Term { return c.Const(avps[i].code, 32) }, 32)
	}
	vend := func(x *smt.Term) *smt.Term {
		return table(x, n, func(i int) *smt.Term { return c.Const(avps[i].vendor, 32) }, 32)
	}
	q3 := []*smt.Term{c.Ult(a, b), c.Ult(b, c.Const(uint64(n), W)), c.Eq(code(a), code(b)), c.Eq(vend(a), vend(b))}
	if r, v := s.Check(q3, []*smt.Term{a, b}); r == smt.Sat {
		x, y := avps[v[0]], avps[v[1]]
		if x.name != y.name {
			findings = append(findings, &sx.Finding{Harness: h.Func, Kind: "assert", Name: "every AVP of the application has a unique code",
				Site: fmt.Sprintf("%q and %q both have code %d (vendor %d) in application %d", x.name, y.name, x.code, x.vendor, x.app)})
		}
	} else if r == smt.Unknown {
		return nil, nfacts, nil, 0, fmt.Errorf("solver unknown on Q3")
	}
	// Q4: two fields of one message structure mapped to the same AVP name (the
	// second would be sent under the code of the first and lost on receipt)
	ids := map[string]uint64{}
	idOf := func(k string) uint64 {
		if v, ok := ids[k]; ok {
			return v
		}
		ids[k] = uint64(len(ids) + 1)
		return ids[k]
	}
	structOf := func(x *smt.Term) *smt.Term {
		return table(x, len(tags), func(i int) *smt.Term {
			return c.Const(idOf("S:"+strings.SplitN(tags[i].where, ".", 2)[0]), 32)
		}, 32)
	}
	nameOf := func(x *smt.Term) *smt.Term {
		return table(x, len(tags), func(i int) *smt.Term { return c.Const(idOf("N:"+tags[i].name), 32) }, 32)
	}
	q4 := []*smt.Term{c.Ult(a, b), c.Ult(b, c.Const(uint64(len(tags)), W)), c.Eq(structOf(a), structOf(b)), c.Eq(nameOf(a), nameOf(b))}
	if r, v := s.Check(q4, []*smt.Term{a, b}); r == smt.Sat {
		x, y := tags[v[0]], tags[v[1]]
		findings = append(findings, &sx.Finding{Harness: h.Func, Kind: "assert", Name: "the fields of one message structure are mapped to distinct AVPs",
			Site: fmt.Sprintf("%s and %s are both tagged avp:%q", x.where, y.where, x.name)})
	} else if r == smt.Unknown {
		return nil, nfacts, nil, 0, fmt.Errorf("solver unknown on Q4")
	}
	queries = map[string]int{"sat": s.NSat, "unsat": s.NUnsat, "unknown": s.NUnknown}
	return findings, nfacts, queries, s.Time.Seconds(), nil
}

func writeFactsReplay(id string, h *harnessSpec, f *sx.Finding) string {
	dir := filepath.Join(verifDir, "replays")
	os.MkdirAll(dir, 0o755)
	p := filepath.Join(dir, fmt.Sprintf("%s-%s-facts.txt", id, h.Func))
	os.WriteFile(p, []byte(f.Name+"\n"+f.Site+"\n(replay: re-run `gosx check "+id+"`: the fact extraction runs natively against the real dictionaries)\n"), 0o644)
	return p
}
