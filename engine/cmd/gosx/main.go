// Command gosx: symbolic executor front end.
//
//	gosx run   -pkg <pattern> -func <Name> [-unwind N] ...   explore one harness, print result
//	gosx check <ID> --tier quick|thorough                    run every harness of a property
//	gosx replay <file.json>                                  replay a counterexample natively
package main

import (
	"encoding/json"
	"flag"
	"fmt"
	"os"
	"path/filepath"
	"sort"
	"strings"
	"time"

	"gosx/sx"
)

var (
	repoDir    = envOr("GOSX_REPO", "/repo")
	verifDir   = envOr("GOSX_VERIF", "/verif")
	harnessDir = filepath.Join(verifDir, "harness")
)

func envOr(k, d string) string {
	if v := os.Getenv(k); v != "" {
		return v
	}
	return d
}

func main() {
	if len(os.Args) < 2 {
		fmt.Fprintln(os.Stderr, "usage: gosx run|check|replay ...")
		os.Exit(2)
	}
	switch os.Args[1] {
	case "run":
		os.Exit(cmdRun(os.Args[2:]))
	case "check":
		os.Exit(cmdCheck(os.Args[2:]))
	case "replay":
		os.Exit(cmdReplay(os.Args[2:]))
	case "list":
		os.Exit(cmdList(os.Args[2:]))
	}
	fmt.Fprintln(os.Stderr, "unknown command", os.Args[1])
	os.Exit(2)
}

// buildOverlay maps every file under /verif/harness/<rel> to /repo/<rel>.
// native selects the native vx implementation (replay) instead of the
// symbolic declarations.
func buildOverlay(native bool) (map[string][]byte, error) {
	ov := map[string][]byte{}
	err := filepath.Walk(harnessDir, func(p string, info os.FileInfo, err error) error {
		if err != nil || info.IsDir() {
			return err
		}
		if !strings.HasSuffix(p, ".go") {
			return nil
		}
		rel, _ := filepath.Rel(harnessDir, p)
		base := filepath.Base(p)
		if strings.HasPrefix(rel, "zzvx"+string(filepath.Separator)) {
			if native != strings.Contains(base, "native") {
				return nil
			}
		}
		if strings.HasSuffix(base, "_test.go") && !native {
			return nil
		}
		b, err := os.ReadFile(p)
		if err != nil {
			return err
		}
		ov[filepath.Join(repoDir, rel)] = b
		return nil
	})
	return ov, err
}

func cmdRun(args []string) int {
	fs := flag.NewFlagSet("run", flag.ExitOnError)
	pkg := fs.String("pkg", "", "package pattern(s), comma separated (relative to /repo)")
	fn := fs.String("func", "", "harness function name (in the first package)")
	unwind := fs.Int("unwind", 64, "loop unwinding bound")
	timeout := fs.Int("timeout", 20000, "solver timeout per query (ms)")
	solver := fs.String("solver", "z3", "bit-vector solver")
	initp := fs.String("init", "", "packages whose init to run, comma separated")
	trace := fs.Bool("trace", false, "trace calls")
	strict := fs.Bool("strictcap", false, "flag reslice beyond len")
	maxs := fs.Int("maxseconds", 0, "time limit")
	twin := fs.Bool("twin", false, "reachability twin")
	fs.Parse(args)
	ov, err := buildOverlay(false)
	if err != nil {
		fmt.Fprintln(os.Stderr, err)
		return 2
	}
	t0 := time.Now()
	pats := append(strings.Split(*pkg, ","), "github.com/free5gc/chf/zzvx")
	prog, err := sx.Load(repoDir, ov, pats...)
	if err != nil {
		fmt.Fprintln(os.Stderr, err)
		return 2
	}
	fmt.Fprintf(os.Stderr, "loaded in %.1fs\n", time.Since(t0).Seconds())
	var f = prog.FindFunc(*fn)
	if f == nil {
		fmt.Fprintln(os.Stderr, "function not found:", *fn)
		return 2
	}
	opt := sx.Options{Unwind: *unwind, TimeoutMs: *timeout, Solver: *solver, StrictCap: *strict, MaxSeconds: *maxs, Twin: *twin}
	if *initp != "" {
		opt.InitPkgs = strings.Split(*initp, ",")
	}
	e := sx.NewExplorer(prog, *fn, opt)
	e.Trace = *trace
	t1 := time.Now()
	complete := e.Run(f)
	e.Close()
	printResult(e, complete, time.Since(t1))
	if len(e.Findings) > 0 {
		return 1
	}
	if !complete || len(e.Stats.Inconclusive) > 0 || e.Stats.Unsupported > 0 {
		return 2
	}
	return 0
}

func printResult(e *sx.Explorer, complete bool, d time.Duration) {
	st := e.Stats
	fmt.Printf("harness %s: paths=%d infeasible=%d unwind=%d unsupported=%d blocked=%d instrs=%d complete=%v wall=%.2fs\n",
		e.Harness, st.Paths, st.Infeasible, st.UnwindHits, st.Unsupported, st.Blocked, st.Instrs, complete, d.Seconds())
	if e.Lin != nil {
		fmt.Printf("  solver %s: sat=%d unsat=%d unknown=%d time=%.2fs errors=%d\n", e.Lin.Name, e.Lin.NSat, e.Lin.NUnsat, e.Lin.NUnknown, e.Lin.Time.Seconds(), len(e.Lin.Errors))
		for _, er := range e.Lin.Errors {
			fmt.Println("   solver error:", er)
		}
	}
	if e.NL != nil {
		fmt.Printf("  solver %s: sat=%d unsat=%d unknown=%d time=%.2fs errors=%d\n", e.NL.Name, e.NL.NSat, e.NL.NUnsat, e.NL.NUnknown, e.NL.Time.Seconds(), len(e.NL.Errors))
		for _, er := range e.NL.Errors {
			fmt.Println("   solver error:", er)
		}
	}
	var keys []string
	for k := range st.AssertReached {
		keys = append(keys, k)
	}
	sort.Strings(keys)
	for _, k := range keys {
		fmt.Printf("  obligation %-50s reached=%d proved=%d\n", k, st.AssertReached[k], st.AssertProved[k])
	}
	for msg, n := range st.UnsupportedMsgs {
		fmt.Printf("  UNSUPPORTED x%d: %s\n", n, msg)
	}
	for _, s := range st.Inconclusive {
		fmt.Println("  INCONCLUSIVE:", s)
	}
	for _, k := range e.Order {
		f := e.Findings[k]
		b, _ := json.Marshal(f.Inputs)
		fmt.Printf("  FINDING %s %q @ %s\n     inputs=%s\n", f.Kind, f.Name, f.Site, b)
		if f.Extra != nil {
			fmt.Printf("     extra=%v\n", f.Extra)
		}
	}
	for id, f := range e.KnownSeen {
		b, _ := json.Marshal(f.Inputs)
		fmt.Printf("  KNOWN %s: %s %q @ %s inputs=%s\n", id, f.Kind, f.Name, f.Site, b)
	}
}

func cmdList(args []string) int {
	return 0
}
