// Package zzh holds the schema-level (node) harnesses of C04/C05/C16: they
// run the real codec on values of every generated CDR schema type. The type
// registry zz_types_gen.go is regenerated from /repo/cdr/cdrType on every run.
// The package exists only in overlays.
package zzh

//gosx:file init=github.com/free5gc/chf/cdr/asn,github.com/free5gc/chf/zzref,github.com/free5gc/chf/zzh

import (
	"reflect"
	"strings"

	"github.com/free5gc/chf/cdr/asn"
	vx "github.com/free5gc/chf/zzvx"
)

var (
	tBitString = reflect.TypeOf(asn.BitString{})
	tOctet     = reflect.TypeOf(asn.OctetString{})
	tOID       = reflect.TypeOf(asn.ObjectIdentifier{})
	tEnum      = reflect.TypeOf(asn.Enumerated(0))
	tNull      = reflect.TypeOf(asn.NULL(false))
)

// zzPickType selects the schema type of this path: the registry is split in
// nshards shards; within a shard the type is a forked choice.
func zzPickType() reflect.Type {
	sh := vx.Param("shard", 0)
	ns := vx.Param("nshards", 1)
	var idx []int
	for i := range ZZTypes {
		if i%ns == sh {
			idx = append(idx, i)
		}
	}
	k := vx.Choice("type", len(idx))
	vx.Note("type " + ZZTypeNames[idx[k]])
	return ZZTypes[idx[k]]
}

type zzPolicy struct {
	allSubsetsUpTo int // enumerate all presence subsets when k <= this
	pairs          bool
	bigStrings     bool
	maxDepth       int
	slen           int // length of every string/octet-string leaf on this path
	fullOnly       int // >0: no enumeration at the root: 1 = all optional members present, 2 = present/absent (two shapes); first alternative, one element
}

func hasOptional(tag string) bool {
	for _, p := range strings.Split(tag, ",") {
		if p == "optional" {
			return true
		}
	}
	return false
}

// zzSubsets returns the presence masks explored for k optional members.
func zzSubsets(k int, pol zzPolicy) [][]bool {
	var out [][]bool
	if k <= pol.allSubsetsUpTo {
		for m := 0; m < 1<<uint(k); m++ {
			s := make([]bool, k)
			for i := 0; i < k; i++ {
				s[i] = m&(1<<uint(i)) != 0
			}
			out = append(out, s)
		}
		return out
	}
	mk := func(def bool, flip ...int) []bool {
		s := make([]bool, k)
		for i := range s {
			s[i] = def
		}
		for _, f := range flip {
			s[f] = !def
		}
		return s
	}
	out = append(out, mk(false), mk(true))
	for i := 0; i < k; i++ {
		out = append(out, mk(false, i), mk(true, i))
	}
	if pol.pairs {
		for i := 0; i < k; i++ {
			for j := i + 1; j < k; j++ {
				out = append(out, mk(false, i, j), mk(true, i, j))
			}
		}
	}
	return out
}

// zzFill populates v (addressable). depth 0 = the type under test (its
// optional members and alternatives are enumerated); deeper members are
// populated minimally: optional members absent, first alternative, one element.
func zzFill(v reflect.Value, path string, depth int, pol zzPolicy) {
	t := v.Type()
	switch t {
	case tBitString:
		n := 1
		if depth == 0 {
			n = vx.Choice(path+".nbytes", 3)
		}
		bl := vx.Uint64(path + ".bitlen")
		vx.Assume(bl <= uint64(8*n))
		vx.Assume(bl+8 > uint64(8*n))
		vx.Assume(n != 0 || bl == 0)
		vx.Assume(n == 0 || bl > 0)
		v.Set(reflect.ValueOf(asn.BitString{Bytes: vx.Bytes(path+".bits", n), BitLength: bl}))
		return
	case tOctet, tOID:
		n := 1
		if depth <= 1 {
			n = zzStrLen(path, pol)
		}
		v.SetBytes(vx.Bytes(path+".oct", n))
		return
	case tEnum:
		x := vx.Int64(path + ".enum")
		vx.Assume(x >= -128)
		vx.Assume(x <= 127)
		v.SetInt(x)
		return
	case tNull:
		v.SetBool(true)
		return
	}
	switch v.Kind() {
	case reflect.Ptr:
		v.Set(reflect.New(t.Elem()))
		zzFill(v.Elem(), path, depth, pol)
	case reflect.Bool:
		v.SetBool(vx.Bool(path + ".bool"))
	case reflect.Int, reflect.Int32, reflect.Int64:
		x := vx.Int64(path + ".int")
		vx.Assume(x >= -128)
		vx.Assume(x <= 127)
		v.SetInt(x)
	case reflect.String:
		n := 1
		if depth <= 1 {
			n = zzStrLen(path, pol)
		}
		v.SetString(vx.String(path+".str", n))
	case reflect.Slice:
		if t.Elem().Kind() == reflect.Uint8 {
			n := 1
			if depth <= 1 {
				n = zzStrLen(path, pol)
			}
			v.SetBytes(vx.Bytes(path+".bytes", n))
			return
		}
		n := 1
		if depth == 0 && pol.fullOnly == 0 {
			n = vx.Choice(path+".len", 3)
		}
		s := reflect.MakeSlice(t, n, n)
		for i := 0; i < n; i++ {
			zzFill(s.Index(i), path+"["+string(rune('0'+i))+"]", depth+1, pol)
		}
		v.Set(s)
	case reflect.Struct:
		first := t.Field(0).Name
		switch first {
		case "Value", "List":
			zzFill(v.Field(0), path, depth, pol)
		case "Present":
			if t.NumField() < 2 {
				return // CHOICE without alternatives (open type placeholder): not encodable
			}
			alt := 1
			if depth == 0 && pol.fullOnly == 0 {
				alt = 1 + vx.Choice(path+".alt", t.NumField()-1)
			}
			v.Field(0).SetInt(int64(alt))
			zzFill(v.Field(alt), path+"."+t.Field(alt).Name, depth+1, pol)
		default:
			var opt []int
			for i := 0; i < t.NumField(); i++ {
				if hasOptional(t.Field(i).Tag.Get("ber")) {
					opt = append(opt, i)
				}
			}
			present := make([]bool, t.NumField())
			for i := range present {
				present[i] = true
			}
			if depth == 0 && pol.fullOnly > 0 {
				all := true
				if pol.fullOnly == 2 {
					all = vx.Choice(path+".shape", 2) == 0
				}
				for _, i := range opt {
					present[i] = all
				}
			} else if depth == 0 {
				subs := zzSubsets(len(opt), pol)
				s := subs[vx.Choice(path+".subset", len(subs))]
				for j, i := range opt {
					present[i] = s[j]
				}
			} else {
				for _, i := range opt {
					present[i] = false
				}
			}
			for i := 0; i < t.NumField(); i++ {
				if !present[i] {
					continue
				}
				if depth+1 > pol.maxDepth {
					vx.Assume(false) // deeper than the stated bound: not explored
				}
				zzFill(v.Field(i), path+"."+t.Field(i).Name, depth+1, pol)
			}
		}
	default:
		vx.Fail("zzFill: unexpected kind " + v.Kind().String())
	}
}

func zzStrLen(path string, pol zzPolicy) int { return pol.slen }

// zzPickStrLen forks once per path over the leaf string length.
func zzPickStrLen(big bool) int {
	if big {
		return []int{0, 1, 2, 126, 127, 128}[vx.Choice("slen", 6)]
	}
	return vx.Choice("slen", 3)
}
