package zzh

//gosx:file init=github.com/free5gc/chf/cdr/asn,github.com/free5gc/chf/zzref,github.com/free5gc/chf/zzh

import (
	"reflect"

	"github.com/free5gc/chf/cdr/asn"
	"github.com/free5gc/chf/zzref"
	vx "github.com/free5gc/chf/zzvx"
)

func zzPol() zzPolicy {
	return zzPolicy{
		allSubsetsUpTo: vx.Param("allsubsets", 5),
		pairs:          vx.Param("pairs", 0) == 1,
		bigStrings:     vx.Param("bigstrings", 0) == 1,
		maxDepth:       vx.Param("maxdepth", 12),
		slen:           zzPickStrLen(vx.Param("bigstrings", 0) == 1),
	}
}

func zzTopParams() string {
	switch vx.Choice("top", vx.Param("tops", 2)) {
	case 0:
		return ""
	case 1:
		return "tagNum:40"
	default:
		return "explicit,choice"
	}
}

// C04-N: for every schema type, every explored presence subset / alternative
// / element count, the real encoder's output equals the X.690 reference.
//
//gosx:property=C04 tier=quick shards=16 p.allsubsets=5 p.allsubsets.thorough=9 p.pairs.thorough=1 p.tops.thorough=3 p.bigstrings.thorough=1 maxseconds.thorough=7200
func ZZ_C04_Schema() {
	t := zzPickType()
	v := reflect.New(t)
	zzFill(v.Elem(), "r", 0, zzPol())
	p := zzTopParams()
	got, err := asn.BerMarshalWithParams(v.Interface(), p)
	want, rerr := zzref.Encode(v, zzref.ParseParams(p))
	if rerr != nil {
		vx.Assert("unsupported/invalid value is reported as an error", err != nil)
		return
	}
	vx.Assert("marshal succeeds on a supported value", err == nil)
	if err != nil {
		return
	}
	vx.Assert("encoding equals X.690 reference", vx.BytesEq(got, want))
	vx.Assert("encoding is one well-formed TLV", zzref.WellFormed(got))
}

// C05-N: decode(encode(v)) == v for the same space.
//
//gosx:property=C05 tier=quick shards=16 p.allsubsets=5 p.allsubsets.thorough=9 p.pairs.thorough=1 p.tops.thorough=3 p.bigstrings.thorough=1 maxseconds.thorough=7200
func ZZ_C05_Schema() {
	t := zzPickType()
	v := reflect.New(t)
	zzFill(v.Elem(), "r", 0, zzPol())
	p := zzTopParams()
	b, err := asn.BerMarshalWithParams(v.Interface(), p)
	_, rerr := zzref.Encode(v, zzref.ParseParams(p))
	if rerr != nil {
		vx.Assert("unsupported/invalid value is reported as an error", err != nil)
		return
	}
	vx.Assert("marshal succeeds on a supported value", err == nil)
	if err != nil {
		return
	}
	w := reflect.New(t)
	err = asn.UnmarshalWithParams(b, w.Interface(), p)
	vx.Assert("unmarshal of own encoding succeeds", err == nil)
	if err != nil {
		return
	}
	vx.Assert("round trip yields an equal value", vx.Equal(v.Interface(), w.Interface()))
}

// C16-N (a): every byte string of up to maxlen bytes decoded into every schema
// type: error or value, never a panic, no read beyond len (cap = len + 4).
//
//gosx:property=C16 tier=quick shards=16 strictcap unwind=48 p.maxlen=3 p.maxlen.thorough=6 maxseconds.thorough=7200
func ZZ_C16_SchemaRawBytes() {
	t := zzPickType()
	n := vx.Choice("len", vx.Param("maxlen", 4)+1)
	b := vx.Bytes("b", n+4)[:n]
	w := reflect.New(t)
	asn.UnmarshalWithParams(b, w.Interface(), "")
	vx.Assert("decoder returned", true)
}

// C16-N (b): every single-octet corruption of a valid encoding (any octet of
// the encoding replaced by an arbitrary value: identifier, length or contents,
// i.e. every over-long / truncated / mistyped variant one octet away) decoded
// into the type it was produced from: error or value, never a panic.
//
//gosx:property=C16 tier=quick shards=16 strictcap unwind=48 p.shapes=1 p.shapes.thorough=2 p.maxpos=10 p.maxpos.thorough=0 maxseconds.thorough=7200
func ZZ_C16_SchemaCorruptedEncoding() {
	t := zzPickType()
	v := reflect.New(t)
	pol := zzPolicy{maxDepth: 12, slen: 1, fullOnly: vx.Param("shapes", 1)}
	zzFill(v.Elem(), "r", 0, pol)
	enc, err := asn.BerMarshalWithParams(v.Interface(), "")
	if err != nil {
		return
	}
	vx.Assume(len(enc) <= 48) // longer encodings are outside this obligation's bound
	b := make([]byte, len(enc), len(enc)+4)
	copy(b, enc)
	if len(b) > 0 {
		np := len(b)
		if mp := vx.Param("maxpos", 0); mp > 0 && np > mp {
			np = mp // quick tier: only the first maxpos octets are corrupted
		}
		i := vx.Choice("pos", np)
		b[i] = vx.Byte("octet")
	}
	w := reflect.New(t)
	asn.UnmarshalWithParams(b, w.Interface(), "")
	vx.Assert("decoder returned", true)
}
