package zzh

//gosx:file init=github.com/free5gc/chf/cdr/asn,github.com/free5gc/chf/zzref,github.com/free5gc/chf/zzh

import (
	"reflect"
	"strconv"

	"github.com/free5gc/chf/cdr/asn"
	"github.com/free5gc/chf/cdr/cdrType"
	"github.com/free5gc/chf/zzref"
	vx "github.com/free5gc/chf/zzvx"
)

type zzSeq struct {
	A int64          `ber:"tagNum:0"`
	B *bool          `ber:"tagNum:1,optional"`
	C asn.IA5String  `ber:"tagNum:2,ia5"`
	D []int64        `ber:"tagNum:3,optional"`
	E *asn.BitString `ber:"tagNum:31,optional"`
	F asn.Enumerated `ber:"tagNum:200,explicit"`
}

func zzEmitCodec(name string, v interface{}, params string, fresh func() interface{}) {
	b, err := asn.BerMarshalWithParams(v, params)
	if err != nil {
		vx.Emit(name + " marshal error")
		return
	}
	vx.Emit(name + " bytes " + vx.Hex(b))
	r, rerr := zzref.Encode(reflect.ValueOf(v), zzref.ParseParams(params))
	if rerr != nil {
		vx.Emit(name + " ref error")
	} else {
		vx.Emit(name + " ref " + vx.Hex(r))
	}
	w := fresh()
	if err := asn.UnmarshalWithParams(b, w, params); err != nil {
		vx.Emit(name + " unmarshal error")
		return
	}
	b2, err := asn.BerMarshalWithParams(w, params)
	if err != nil {
		vx.Emit(name + " re-marshal error")
		return
	}
	vx.Emit(name + " again " + vx.Hex(b2) + " equal " + strconv.FormatBool(vx.Equal(reflect.ValueOf(w).Elem().Interface(), reflect.Indirect(reflect.ValueOf(v)).Interface())))
}

// Translator validation: concrete values pushed through the real codec, the
// reference encoder and the reflect-based helpers, natively and in the
// engine; every emitted line must be identical.
//
//gosx:property=C04 tier=quick
func ZZV_C04_Codec() {
	for i, n := range []int64{0, 1, 127, 128, 255, 256, 32767, 32768, -1, -128, -129, -32768, -32769, 1 << 40, -(1 << 40), 9223372036854775807, -9223372036854775808} {
		v := n
		zzEmitCodec("int"+strconv.Itoa(i), v, "", func() interface{} { return new(int64) })
		zzEmitCodec("tint"+strconv.Itoa(i), v, "tagNum:5", func() interface{} { return new(int64) })
		zzEmitCodec("eint"+strconv.Itoa(i), asn.Enumerated(v), "tagNum:40,explicit", func() interface{} { return new(asn.Enumerated) })
	}
	zzEmitCodec("true", true, "", func() interface{} { return new(bool) })
	zzEmitCodec("false", false, "tagNum:1", func() interface{} { return new(bool) })
	zzEmitCodec("null", asn.NULL(true), "", func() interface{} { return new(asn.NULL) })
	zzEmitCodec("oct", asn.OctetString{1, 2, 3}, "", func() interface{} { return new(asn.OctetString) })
	zzEmitCodec("oct0", asn.OctetString{}, "tagNum:2", func() interface{} { return new(asn.OctetString) })
	long := make(asn.OctetString, 300)
	for i := range long {
		long[i] = byte(i)
	}
	zzEmitCodec("oct300", long, "tagNum:2,explicit", func() interface{} { return new(asn.OctetString) })
	zzEmitCodec("utf8", asn.UTF8String("héllo"), "utf8", func() interface{} { return new(asn.UTF8String) })
	zzEmitCodec("ia5", asn.IA5String("abc"), "tagNum:7,ia5", func() interface{} { return new(asn.IA5String) })
	zzEmitCodec("bits", asn.BitString{Bytes: []byte{0xa0}, BitLength: 3}, "", func() interface{} { return new(asn.BitString) })
	zzEmitCodec("bits16", asn.BitString{Bytes: []byte{0xa0, 0x0f}, BitLength: 16}, "tagNum:3", func() interface{} { return new(asn.BitString) })
	tr := true
	zzEmitCodec("seq", zzSeq{A: -5, B: &tr, C: "xy", D: []int64{1, 300}, E: &asn.BitString{Bytes: []byte{0x80}, BitLength: 1}, F: 7}, "", func() interface{} { return new(zzSeq) })
	zzEmitCodec("seqmin", zzSeq{A: 1, C: "", F: -1}, "tagNum:9", func() interface{} { return new(zzSeq) })

	// a realistic CHF record
	seq := int64(3)
	ssu := int64(12)
	rec := cdrType.CHFRecord{Present: 1, ChargingFunctionRecord: &cdrType.ChargingRecord{
		RecordType:                 cdrType.RecordType{Value: 200},
		RecordingNetworkFunctionID: cdrType.NetworkFunctionName{Value: "chf"},
		SubscriberIdentifier:       &cdrType.SubscriptionID{SubscriptionIDType: cdrType.SubscriptionIDType{Value: 1}, SubscriptionIDData: "208930000000001"},
		RecordOpeningTime:          cdrType.TimeStamp{Value: asn.OctetString{0x24, 0x01, 0x02, 0x03, 0x04, 0x05, '+', 0x05, 0x30}},
		RecordSequenceNumber:       &seq,
		LocalRecordSequenceNumber:  &cdrType.LocalSequenceNumber{Value: 77},
		ChargingSessionIdentifier:  &cdrType.ChargingSessionIdentifier{Value: asn.OctetString("imsi-1smf-4")},
		ChargingID:                 &cdrType.ChargingID{Value: 9},
		ListOfMultipleUnitUsage: []cdrType.MultipleUnitUsage{{
			RatingGroup: cdrType.RatingGroupId{Value: 1},
			UsedUnitContainers: []cdrType.UsedUnitContainer{{
				LocalSequenceNumber:  &cdrType.LocalSequenceNumber{Value: 1},
				DataTotalVolume:      &cdrType.DataVolumeOctets{Value: 1000},
				DataVolumeUplink:     &cdrType.DataVolumeOctets{Value: 400},
				DataVolumeDownlink:   &cdrType.DataVolumeOctets{Value: 600},
				ServiceSpecificUnits: &ssu,
			}},
			UPFID: &cdrType.NetworkFunctionName{Value: "upf-1"},
		}},
		NFunctionConsumerInformation: cdrType.NetworkFunctionInformation{
			NetworkFunctionality:       cdrType.NetworkFunctionality{Value: cdrType.NetworkFunctionalityPresentSMF},
			NetworkFunctionName:        &cdrType.NetworkFunctionName{Value: "smf"},
			NetworkFunctionIPv4Address: &cdrType.IPAddress{Present: 3, IPTextV4Address: func() *asn.IA5String { s := asn.IA5String("10.0.0.1"); return &s }()},
		},
	}}
	zzEmitCodec("chfrecord", &rec, "explicit,choice", func() interface{} { return new(cdrType.CHFRecord) })
	vx.Emit("types " + strconv.Itoa(len(ZZTypes)) + " first " + ZZTypeNames[0] + " kind " + ZZTypes[0].Kind().String())
}
