// Package zzref is an independent BER encoder written from ITU-T X.690
// (definite-length, minimal-length encodings) for the tag language used by
// /repo/cdr/asn struct tags. It shares no code with package asn: it is the
// oracle of properties C04/C05. It exists only in overlays.
package zzref

import (
	"errors"
	"reflect"
	"strconv"
	"strings"
)

const asnPkg = "github.com/free5gc/chf/cdr/asn"

// Universal tag numbers (X.680 clause 8.4).
const (
	uBoolean    = 1
	uInteger    = 2
	uBitString  = 3
	uOctetStr   = 4
	uNull       = 5
	uEnumerated = 10
	uUTF8       = 12
	uSequence   = 16
	uSet        = 17
	uIA5        = 22
	uGraphic    = 25
)

type Params struct {
	Optional bool
	HasTag   bool
	Tag      uint64
	Explicit bool
	Set      bool
	Choice   bool
	OpenType bool
	StrTag   int // universal tag for string kinds named by the tag (0 = none)
	Null     bool
}

// ParseParams reads the comma separated tag language.
func ParseParams(s string) Params {
	var p Params
	for _, part := range strings.Split(s, ",") {
		switch {
		case part == "optional":
			p.Optional = true
		case part == "explicit":
			p.Explicit = true
		case part == "set":
			p.Set = true
		case part == "choice":
			p.Choice = true
		case part == "openType":
			p.OpenType = true
		case part == "utf8":
			p.StrTag = uUTF8
		case part == "ia5":
			p.StrTag = uIA5
		case part == "graphic":
			p.StrTag = uGraphic
		case part == "null":
			p.Null = true
		case strings.HasPrefix(part, "tagNum:"):
			n, err := strconv.ParseInt(part[len("tagNum:"):], 10, 64)
			if err == nil {
				p.HasTag = true
				p.Tag = uint64(n)
			}
		}
	}
	return p
}

var ErrUnsupported = errors.New("zzref: construct not supported by the codec (OBJECT IDENTIFIER / open type)")
var ErrInvalid = errors.New("zzref: value is not encodable (nil mandatory member, CHOICE without alternative)")

// Header returns identifier and length octets (X.690 8.1.2, 8.1.3).
func Header(class int, constructed bool, tag uint64, length int) []byte {
	first := byte(class&3) << 6
	if constructed {
		first |= 0x20
	}
	var out []byte
	if tag < 31 {
		out = append(out, first|byte(tag))
	} else {
		out = append(out, first|0x1f)
		// base-128, most significant group first, minimal
		ngroups := 1
		for t := tag >> 7; t != 0; t >>= 7 {
			ngroups++
		}
		for g := ngroups - 1; g >= 0; g-- {
			b := byte(tag>>(7*uint(g))) & 0x7f
			if g != 0 {
				b |= 0x80
			}
			out = append(out, b)
		}
	}
	if length < 128 {
		out = append(out, byte(length))
	} else {
		nb := 1
		for l := length >> 8; l != 0; l >>= 8 {
			nb++
		}
		out = append(out, 0x80|byte(nb))
		for g := nb - 1; g >= 0; g-- {
			out = append(out, byte(length>>(8*uint(g))))
		}
	}
	return out
}

// IntContent returns the minimal two's-complement contents octets (8.3).
func IntContent(v int64) []byte {
	n := 1
	for n < 8 {
		lim := int64(1) << (8*uint(n) - 1)
		if v >= -lim && v < lim {
			break
		}
		n++
	}
	out := make([]byte, n)
	for i := 0; i < n; i++ {
		out[i] = byte(v >> (8 * uint(n-1-i)))
	}
	return out
}

type tlv struct {
	class       int
	constructed bool
	tag         uint64
	content     []byte
}

func (t tlv) bytes() []byte {
	return append(Header(t.class, t.constructed, t.tag, len(t.content)), t.content...)
}

func isAsn(t reflect.Type, name string) bool {
	return t.PkgPath() == asnPkg && t.Name() == name
}

// Encode returns the BER encoding of v under params p.
func Encode(v reflect.Value, p Params) ([]byte, error) {
	t, err := encode(v, p)
	if err != nil {
		return nil, err
	}
	return t, nil
}

func encode(v reflect.Value, p Params) ([]byte, error) {
	if !v.IsValid() {
		return nil, ErrInvalid
	}
	for v.Kind() == reflect.Ptr || v.Kind() == reflect.Interface {
		if v.IsNil() {
			return nil, ErrInvalid
		}
		v = v.Elem()
	}
	t := v.Type()
	var u tlv
	switch {
	case isAsn(t, "BitString"):
		bs := v.Field(0)
		bitLen := v.Field(1).Uint()
		n := bs.Len()
		content := make([]byte, 0, n+1)
		content = append(content, byte((8-bitLen%8)%8))
		for i := 0; i < n; i++ {
			content = append(content, byte(bs.Index(i).Uint()))
		}
		u = tlv{0, false, uBitString, content}
	case isAsn(t, "ObjectIdentifier"):
		return nil, ErrUnsupported
	case isAsn(t, "OctetString"):
		u = tlv{0, false, uOctetStr, bytesOf(v)}
	case isAsn(t, "Enumerated"):
		u = tlv{0, false, uEnumerated, IntContent(v.Int())}
	case isAsn(t, "NULL"):
		u = tlv{0, false, uNull, nil}
	default:
		switch v.Kind() {
		case reflect.Bool:
			c := byte(0)
			if v.Bool() {
				c = 0xff
			}
			u = tlv{0, false, uBoolean, []byte{c}}
		case reflect.Int, reflect.Int32, reflect.Int64:
			u = tlv{0, false, uInteger, IntContent(v.Int())}
		case reflect.String:
			s := v.String()
			u = tlv{0, false, uint64(p.StrTag), []byte(s)}
		case reflect.Slice:
			// SEQUENCE OF / SET OF; elements carry no tag of their own
			ep := p
			ep.HasTag = false
			var content []byte
			for i := 0; i < v.Len(); i++ {
				e, err := encode(v.Index(i), ep)
				if err != nil {
					return nil, err
				}
				content = append(content, e...)
			}
			tag := uint64(uSequence)
			if p.Set {
				tag = uSet
			}
			u = tlv{0, true, tag, content}
		case reflect.Struct:
			if t.NumField() == 0 {
				return nil, ErrInvalid
			}
			switch t.Field(0).Name {
			case "Value", "List":
				// single-member wrapper of a non-struct / list type
				return encode(v.Field(0), p)
			case "Present":
				// CHOICE
				if p.OpenType {
					return nil, ErrUnsupported
				}
				present := int(v.Field(0).Int())
				if present <= 0 || present >= t.NumField() {
					return nil, ErrInvalid
				}
				alt, err := encode(v.Field(present), ParseParams(t.Field(present).Tag.Get("ber")))
				if err != nil {
					return nil, err
				}
				if !p.HasTag {
					return alt, nil
				}
				// a tagged CHOICE is always explicitly tagged (X.680 31.2.7)
				return tlv{2, true, p.Tag, alt}.bytes(), nil
			default:
				var content []byte
				for i := 0; i < t.NumField(); i++ {
					fp := ParseParams(t.Field(i).Tag.Get("ber"))
					f := v.Field(i)
					if fp.Optional && isNilable(f) && f.IsNil() {
						continue
					}
					if fp.OpenType {
						return nil, ErrUnsupported
					}
					e, err := encode(f, fp)
					if err != nil {
						return nil, err
					}
					content = append(content, e...)
				}
				tag := uint64(uSequence)
				if p.Set {
					tag = uSet
				}
				u = tlv{0, true, tag, content}
			}
		default:
			return nil, ErrUnsupported
		}
	}
	if !p.HasTag {
		return u.bytes(), nil
	}
	if p.Explicit {
		return tlv{2, true, p.Tag, u.bytes()}.bytes(), nil
	}
	// IMPLICIT: class and number replaced, primitive/constructed kept
	return tlv{2, u.constructed, p.Tag, u.content}.bytes(), nil
}

func isNilable(v reflect.Value) bool {
	switch v.Kind() {
	case reflect.Ptr, reflect.Slice, reflect.Interface, reflect.Map:
		return true
	}
	return false
}

func bytesOf(v reflect.Value) []byte {
	n := v.Len()
	out := make([]byte, n)
	for i := 0; i < n; i++ {
		out[i] = byte(v.Index(i).Uint())
	}
	return out
}

// WellFormed walks b as a sequence of definite-length TLVs and reports
// whether it is exactly one element whose nested constructed contents are
// themselves sequences of complete TLVs (children lengths sum to the parent).
func WellFormed(b []byte) bool {
	n, ok := walk(b)
	return ok && n == len(b)
}

func walk(b []byte) (int, bool) {
	if len(b) < 2 {
		return 0, false
	}
	off := 1
	constructed := b[0]&0x20 != 0
	if b[0]&0x1f == 0x1f {
		for {
			if off >= len(b) {
				return 0, false
			}
			c := b[off]
			off++
			if c&0x80 == 0 {
				break
			}
		}
	}
	if off >= len(b) {
		return 0, false
	}
	l := 0
	if b[off] < 0x80 {
		l = int(b[off])
		off++
	} else {
		nb := int(b[off] & 0x7f)
		off++
		if nb == 0 || nb > 4 || off+nb > len(b) {
			return 0, false
		}
		for i := 0; i < nb; i++ {
			l = l<<8 | int(b[off+i])
		}
		off += nb
	}
	if off+l > len(b) {
		return 0, false
	}
	if constructed {
		p := off
		for p < off+l {
			n, ok := walk(b[p : off+l])
			if !ok {
				return 0, false
			}
			p += n
		}
	}
	return off + l, true
}
