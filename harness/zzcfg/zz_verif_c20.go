// Package zzcfg holds the configuration harness of C20 (overlay-only).
package zzcfg

//gosx:file replay=engine

import (
	"context"
	"sync"

	"github.com/asaskevich/govalidator"
	"github.com/fiorix/go-diameter/diam/datatype"

	charging_datatype "github.com/free5gc/chf/ccs_diameter/datatype"
	"github.com/free5gc/chf/internal/abmf"
	"github.com/free5gc/chf/internal/cgf"
	chf_context "github.com/free5gc/chf/internal/context"
	"github.com/free5gc/chf/internal/rating"
	"github.com/free5gc/chf/internal/sbi"
	abmfsrv "github.com/free5gc/chf/pkg/abmf"
	"github.com/free5gc/chf/pkg/factory"
	rfsrv "github.com/free5gc/chf/pkg/rf"
	vx "github.com/free5gc/chf/zzvx"
)

func zzBaseline() *factory.Config {
	tls := func() *factory.Tls { return &factory.Tls{Pem: "cert/chf.pem", Key: "cert/chf.key"} }
	cfg := zzBaseline0(tls)
	cfg.Configuration.Cgf.PassiveTransferPortRange.Start = 2123
	cfg.Configuration.Cgf.PassiveTransferPortRange.End = 2130
	return cfg
}

func zzBaseline0(tls func() *factory.Tls) *factory.Config {
	return &factory.Config{
		Info:   &factory.Info{Version: "1.0.3", Description: "CHF"},
		Logger: &factory.Logger{Enable: true, Level: "info"},
		Configuration: &factory.Configuration{
			ChfName:         "CHF",
			Sbi:             &factory.Sbi{Scheme: "https", RegisterIPv4: "127.0.0.113", BindingIPv4: "127.0.0.113", Port: 8000, Tls: tls()},
			ServiceNameList: []string{"nchf-convergedcharging"},
			NrfUri:          "https://127.0.0.10:8000",
			Mongodb:         &factory.Mongodb{Name: "free5gc", Url: "mongodb://localhost:27017"},
			RfDiameter:      &factory.Diameter{Protocol: "tcp", HostIPv4: "127.0.0.113", Port: 3868, Tls: tls()},
			AbmfDiameter:    &factory.Diameter{Protocol: "tcp", HostIPv4: "127.0.0.113", Port: 3869, Tls: tls()},
			Cgf:             &factory.Cgf{Enable: true, HostIPv4: "127.0.0.1", Port: 2121, ListenPort: 2122, CdrFilePath: "/tmp", Tls: tls()},
		},
	}
}

// deviations from the baseline: one per path (thorough: two)
const zzNDev = 17

func zzDeviate(cfg *factory.Config, d int) (mustReject bool) {
	c := cfg.Configuration
	switch d {
	case 0:
		cfg.Info = nil
		return true
	case 1:
		cfg.Logger = nil
		return true
	case 2:
		cfg.Configuration = nil
		return true
	case 3:
		c.Sbi = nil
		return true
	case 4:
		c.Mongodb = nil
		return true
	case 5:
		c.RfDiameter = nil
		return true
	case 6:
		c.AbmfDiameter = nil
		return true
	case 7:
		c.Cgf = nil
		return true
	case 8:
		c.Sbi.Scheme = []string{"ftp", "", "HTTPS"}[vx.Choice("badscheme", 3)]
		return true
	case 9:
		c.ServiceNameList = [][]string{{"nchf-unknown"}, {"nchf-convergedcharging", "nchf-convergedchargin"}, {""}}[vx.Choice("badservice", 3)]
		return true
	case 10:
		c.Sbi.Tls = nil // https without certificate
	case 11:
		c.Sbi.Scheme = "http"
		c.Sbi.Tls = nil
	case 12:
		c.RfDiameter.Tls = nil
	case 13:
		c.AbmfDiameter.Tls = nil
	case 14:
		c.Cgf.Tls = nil
	case 15:
		c.ServiceNameList = []string{"nchf-convergedcharging", "nchf-offlineonlycharging", "nchf-spendinglimitcontrol"}
	case 16:
		c.NrfCertPem = ""
		c.Cgf.Enable = false
	}
	return false
}

// zzStart does what the CHF does with a configuration at start-up and on the
// first charging request: initialise the context, open the rating,
// account-balance and CDR-transfer components, dial both Diameter peers, and
// read the SBI listener parameters.
func zzStart(cfg *factory.Config) {
	factory.ChfConfig = cfg
	ctx := chf_context.GetSelf()
	chf_context.InitChfContext(ctx)
	var wg sync.WaitGroup
	bg := context.Background()
	rfsrv.OpenServer(bg, &wg)
	abmfsrv.OpenServer(bg, &wg)
	cgf.OpenServer(bg, &wg)
	// the real Server.startServer (listener calls stubbed): a panic there is
	// recovered, logged as fatal and terminates the application
	if sbi.ZZStartServer(cfg) {
		vx.Fail("a configuration accepted by validation crashed the SBI server task")
	}
	ue, err := ctx.NewCHFUe("imsi-208930000000001")
	if err != nil || ue == nil {
		vx.Fail("subscriber context cannot be created with a validated configuration")
		return
	}
	sub := &charging_datatype.SubscriptionId{SubscriptionIdType: charging_datatype.END_USER_IMSI, SubscriptionIdData: "208930000000001"}
	abmf.SendAccountDebitRequest(ue, &charging_datatype.AccountDebitRequest{SubscriptionId: sub, RequestedAction: charging_datatype.REFUND_ACCOUNT,
		MultipleServicesCreditControl: &charging_datatype.MultipleServicesCreditControl{RatingGroup: 1, RequestedServiceUnit: &charging_datatype.RequestedServiceUnit{CCTotalOctets: datatype.Unsigned64(1)}}})
	rating.SendServiceUsageRequest(ue, &charging_datatype.ServiceUsageRequest{SubscriptionId: sub,
		ServiceRating: &charging_datatype.ServiceRating{ServiceIdentifier: 1, RequestSubType: charging_datatype.REQ_SUBTYPE_DEBIT}})
}

// C20: every configuration obtained from a valid baseline by one (thorough:
// two) deviations is either rejected by Validate or can be used to start the
// components without a crash; configurations with an unknown service name, a
// scheme other than http/https or a missing mandatory section are rejected.
//
//gosx:property=C20 tier=quick unwind=40 p.pairs.thorough=1
func ZZ_C20_ValidatedConfigStarts() {
	govalidator.TagMap = map[string]govalidator.Validator{} // as after package initialisation, custom validators only
	vx.Config("go.inline", true)
	vx.Register("diam.server.272", abmfsrv.ZZHandleCCR())
	vx.Register("diam.server.111", rfsrv.ZZHandleSUR())
	vx.DBPut("imsi-208930000000001", 1, "quota", "1000")
	vx.DBPut("imsi-208930000000001", 1, "unitCost", "2")
	cfg := zzBaseline()
	d1 := vx.Choice("deviation", zzNDev+1) - 1
	mustReject := false
	if d1 >= 0 {
		mustReject = zzDeviate(cfg, d1)
	}
	if vx.Param("pairs", 0) == 1 && d1 >= 0 && cfg.Configuration != nil {
		d2 := d1 + 1 + vx.Choice("deviation2", zzNDev-d1)
		if d2 < zzNDev && !(d2 >= 3 && d2 <= 16 && cfg.Configuration == nil) {
			// a second deviation that still refers to an existing section
			ok := true
			c := cfg.Configuration
			switch d2 {
			case 8, 10, 11:
				ok = c.Sbi != nil
				if d1 == 8 && d2 == 11 {
					ok = false // 11 would replace the bad scheme of 8 by a good one
				}
			case 15:
				ok = d1 != 9 // 15 would replace the bad service list of 9 by a good one
			case 12:
				ok = c.RfDiameter != nil
			case 13:
				ok = c.AbmfDiameter != nil
			case 14, 16:
				ok = c.Cgf != nil
			}
			if ok {
				mustReject = zzDeviate(cfg, d2) || mustReject
			}
		}
	}
	_, err := cfg.Validate()
	if mustReject {
		vx.Assert("invalid configuration (unknown service, bad scheme or missing mandatory section) is rejected", err != nil)
	}
	if d1 < 0 {
		vx.Assert("the baseline configuration is accepted", err == nil)
	}
	if err != nil {
		return
	}
	crashed := false
	func() {
		defer func() {
			if r := recover(); r != nil {
				crashed = true
				vx.Fail("a configuration accepted by validation crashed the start-up")
			}
		}()
		zzStart(cfg)
	}()
	vx.Assert("validated configuration starts without a crash", !crashed)
}

// Translator validation of the govalidator stub: the accept/reject verdict of
// the real Config.Validate (native run, real govalidator) must equal the
// engine's verdict (stub) for the baseline, every single deviation and every
// pair of deviations.
//
//gosx:property=C20 tier=quick
func ZZV_C20_ValidateVerdicts() {
	if vx.Symbolic() {
		govalidator.TagMap = map[string]govalidator.Validator{}
	}
	verdict := func(cfg *factory.Config) string {
		_, err := cfg.Validate()
		if err != nil {
			return "rejected"
		}
		return "accepted"
	}
	vx.Emit("baseline " + verdict(zzBaseline()))
	for d1 := 0; d1 < zzNDev; d1++ {
		for _, sub := range []int{0, 1, 2} {
			cfg := zzBaseline()
			zzDeviateN(cfg, d1, sub)
			vx.Emit("dev " + string(rune('a'+d1)) + string(rune('0'+sub)) + " " + verdict(cfg))
		}
		for d2 := d1 + 1; d2 < zzNDev; d2++ {
			cfg := zzBaseline()
			zzDeviateN(cfg, d1, 0)
			if cfg.Configuration == nil {
				continue
			}
			c := cfg.Configuration
			ok := true
			switch d2 {
			case 8, 10, 11:
				ok = c.Sbi != nil
			case 12:
				ok = c.RfDiameter != nil
			case 13:
				ok = c.AbmfDiameter != nil
			case 14, 16:
				ok = c.Cgf != nil
			}
			if !ok {
				continue
			}
			zzDeviateN(cfg, d2, 0)
			vx.Emit("pair " + string(rune('a'+d1)) + string(rune('a'+d2)) + " " + verdict(cfg))
		}
	}
}

// zzDeviateN is zzDeviate with the inner alternative chosen concretely.
func zzDeviateN(cfg *factory.Config, d, sub int) {
	c := cfg.Configuration
	switch d {
	case 8:
		c.Sbi.Scheme = []string{"ftp", "", "HTTPS"}[sub]
	case 9:
		c.ServiceNameList = [][]string{{"nchf-unknown"}, {"nchf-convergedcharging", "nchf-convergedchargin"}, {""}}[sub]
	default:
		zzDeviate(cfg, d)
	}
}
