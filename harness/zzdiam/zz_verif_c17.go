// Package zzdiam holds the C17 harnesses (overlay-only).
package zzdiam

import (
	"github.com/fiorix/go-diameter/diam/datatype"

	vx "github.com/free5gc/chf/zzvx"
)

// C17 (value level): every AVP data type used by the service-usage and
// credit-control structures survives go-diameter's Serialize -> Decode over
// its full range, and Len()/Padding() describe the serialized form. This is
// the leaf of "every field is received with exactly the value that was sent";
// the reflection walk and the dictionary lookup above it are not encoded.
//
//gosx:property=C17 tier=quick
func ZZ_C17_DatatypeRoundTrip() {
	switch vx.Choice("type", 8) {
	case 0:
		v := datatype.Unsigned32(vx.Uint32("v"))
		b := v.Serialize()
		d, err := datatype.DecodeUnsigned32(b)
		vx.Assert("Unsigned32 round trip", err == nil && d.(datatype.Unsigned32) == v)
		vx.Assert("Unsigned32 length", len(b) == v.Len() && v.Padding() == 0)
	case 1:
		v := datatype.Unsigned64(vx.Uint64("v"))
		b := v.Serialize()
		d, err := datatype.DecodeUnsigned64(b)
		vx.Assert("Unsigned64 round trip", err == nil && d.(datatype.Unsigned64) == v)
		vx.Assert("Unsigned64 length", len(b) == v.Len() && v.Padding() == 0)
	case 2:
		v := datatype.Integer32(vx.Int32("v"))
		b := v.Serialize()
		d, err := datatype.DecodeInteger32(b)
		vx.Assert("Integer32 round trip", err == nil && d.(datatype.Integer32) == v)
		vx.Assert("Integer32 length", len(b) == v.Len() && v.Padding() == 0)
	case 3:
		v := datatype.Integer64(vx.Int64("v"))
		b := v.Serialize()
		d, err := datatype.DecodeInteger64(b)
		vx.Assert("Integer64 round trip", err == nil && d.(datatype.Integer64) == v)
		vx.Assert("Integer64 length", len(b) == v.Len() && v.Padding() == 0)
	case 4:
		v := datatype.Enumerated(vx.Int32("v"))
		b := v.Serialize()
		d, err := datatype.DecodeEnumerated(b)
		vx.Assert("Enumerated round trip", err == nil && d.(datatype.Enumerated) == v)
		vx.Assert("Enumerated length", len(b) == v.Len() && v.Padding() == 0)
	case 5:
		n := vx.Choice("len", 6)
		v := datatype.UTF8String(vx.String("s", n))
		b := v.Serialize()
		d, err := datatype.DecodeUTF8String(b)
		vx.Assert("UTF8String round trip", err == nil && d.(datatype.UTF8String) == v)
		vx.Assert("UTF8String length and padding", len(b) == v.Len() && (len(b)+v.Padding())%4 == 0 && v.Padding() >= 0 && v.Padding() < 4)
	case 6:
		n := vx.Choice("len", 6)
		v := datatype.OctetString(vx.String("s", n))
		b := v.Serialize()
		d, err := datatype.DecodeOctetString(b)
		vx.Assert("OctetString round trip", err == nil && d.(datatype.OctetString) == v)
		vx.Assert("OctetString length and padding", len(b) == v.Len() && (len(b)+v.Padding())%4 == 0 && v.Padding() >= 0 && v.Padding() < 4)
	default:
		n := vx.Choice("len", 6)
		v := datatype.DiameterIdentity(vx.String("s", n))
		b := v.Serialize()
		d, err := datatype.DecodeDiameterIdentity(b)
		vx.Assert("DiameterIdentity round trip", err == nil && d.(datatype.DiameterIdentity) == v)
		vx.Assert("DiameterIdentity length and padding", len(b) == v.Len() && (len(b)+v.Padding())%4 == 0 && v.Padding() >= 0 && v.Padding() < 4)
	}
}
