package zzdiam

import (
	"bytes"
	"fmt"
	"reflect"
	"sort"

	"github.com/fiorix/go-diameter/diam/dict"

	charging_code "github.com/free5gc/chf/ccs_diameter/code"
	charging_datatype "github.com/free5gc/chf/ccs_diameter/datatype"
	charging_dict "github.com/free5gc/chf/ccs_diameter/dict"
	vx "github.com/free5gc/chf/zzvx"
)

// ZZF_C17_DictFacts runs NATIVELY only (it needs go-diameter's XML dictionary
// parser): it loads the dictionaries exactly as the components do (the
// default parser with the base and credit-control dictionaries, then
// RateDictionary and AbmfDictionary) and emits, for every avp:"..." tag
// reachable from the four message structures, what the dictionary says about
// that name in the application the CHF uses, and every AVP definition of that
// application. The solver query over these facts is built by gosx.
//
//gosx:property=C17 tier=quick facts
func ZZF_C17_DictFacts() {
	if err := dict.Default.Load(bytes.NewReader([]byte(charging_dict.RateDictionary))); err != nil {
		vx.Emit("LOADERR rate " + err.Error())
	}
	if err := dict.Default.Load(bytes.NewReader([]byte(charging_dict.AbmfDictionary))); err != nil {
		vx.Emit("LOADERR abmf " + err.Error())
	}
	app := uint32(charging_code.Re_interface)
	seen := map[string]bool{}
	var walk func(t reflect.Type, owner string)
	walk = func(t reflect.Type, owner string) {
		for t.Kind() == reflect.Ptr {
			t = t.Elem()
		}
		if t.Kind() != reflect.Struct || seen[t.String()] {
			return
		}
		seen[t.String()] = true
		for i := 0; i < t.NumField(); i++ {
			f := t.Field(i)
			name := f.Tag.Get("avp")
			if name == "" || name == "-" {
				continue
			}
			ft := f.Type
			for ft.Kind() == reflect.Ptr {
				ft = ft.Elem()
			}
			gotype := ft.Name()
			if ft.PkgPath() == "github.com/fiorix/go-diameter/diam/datatype" {
				// a go-diameter data type: its name is the carrier type
			} else if ft.Kind() == reflect.Struct {
				gotype = "struct"
			} else {
				// a named type of the CHF: its underlying go-diameter type decides
				gotype = underlying(ft)
			}
			a, err := dict.Default.FindAVPWithVendor(app, name, dict.UndefinedVendorID)
			if err != nil || a == nil {
				vx.Emit(fmt.Sprintf("TAG %s.%s|%s|%s|false|0|none", t.Name(), f.Name, name, gotype))
			} else {
				vx.Emit(fmt.Sprintf("TAG %s.%s|%s|%s|true|%d|%s", t.Name(), f.Name, name, gotype, a.Code, a.Data.TypeName))
			}
			walk(ft, t.Name())
		}
	}
	walk(reflect.TypeOf(charging_datatype.ServiceUsageRequest{}), "")
	walk(reflect.TypeOf(charging_datatype.ServiceUsageResponse{}), "")
	walk(reflect.TypeOf(charging_datatype.AccountDebitRequest{}), "")
	walk(reflect.TypeOf(charging_datatype.AccountDebitResponse{}), "")
	var lines []string
	for _, ap := range dict.Default.Apps() {
		if ap.ID != app {
			continue
		}
		for _, a := range ap.AVP {
			lines = append(lines, fmt.Sprintf("AVP %d|%s|%d|%d|%s", ap.ID, a.Name, a.Code, a.VendorID, a.Data.TypeName))
		}
	}
	sort.Strings(lines)
	for _, l := range lines {
		vx.Emit(l)
	}
}

func underlying(t reflect.Type) string {
	switch t.Kind() {
	case reflect.Int32:
		return "Enumerated"
	case reflect.Uint32:
		return "Unsigned32"
	case reflect.Uint64:
		return "Unsigned64"
	case reflect.Int64:
		return "Integer64"
	case reflect.String:
		return "OctetString"
	case reflect.Slice:
		return "Grouped"
	}
	return t.Kind().String()
}
