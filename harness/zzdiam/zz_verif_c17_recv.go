package zzdiam

//gosx:file replay=engine

import (
	"strconv"

	"github.com/fiorix/go-diameter/diam"
	"github.com/fiorix/go-diameter/diam/datatype"

	charging_datatype "github.com/free5gc/chf/ccs_diameter/datatype"
	abmfsrv "github.com/free5gc/chf/pkg/abmf"
	rfsrv "github.com/free5gc/chf/pkg/rf"
	vx "github.com/free5gc/chf/zzvx"
)

// C17 (receive side of the two servers): each request is received with its
// own members only. A request in which an optional AVP (or grouped AVP) is
// absent, served by the same handler instance after a request that carried
// it, is treated as not carrying it - go-diameter's Unmarshal writes only the
// members that are present, so a decode target that outlives one request
// would keep the earlier values. Observed through the servers' answers.
// (The message stub decodes member-wise like go-diameter; vx.OmitAVP leaves
// an AVP out of a message.)
//
//gosx:property=C17 tier=quick unwind=40 timeout=30000
func ZZ_C17_AbsentMembersAreReceivedAsAbsent() {
	conn, _ := vx.DiamConn().(diam.Conn)
	if vx.Choice("server", 2) == 0 {
		// rating server: Monetary-Quota / Consumed-Units absent = 0
		vx.DBPut("imsi-ab", 1, "unitCost", "7")
		h := rfsrv.ZZHandleSUR()
		mk := func(sub charging_datatype.RequestSubType, v uint32) *diam.Message {
			var sur charging_datatype.ServiceUsageRequest
			sur.SessionId = "s"
			sur.SubscriptionId = &charging_datatype.SubscriptionId{SubscriptionIdType: charging_datatype.END_USER_IMSI, SubscriptionIdData: "ab"}
			sur.ServiceRating = &charging_datatype.ServiceRating{ServiceIdentifier: 1, RequestSubType: sub,
				ConsumedUnits: datatype.Unsigned32(v), MonetaryQuota: datatype.Unsigned32(v)}
			msg := diam.NewRequest(111, 16777218, nil)
			vx.Assert("request marshals", msg.Marshal(&sur) == nil)
			return msg
		}
		sub := charging_datatype.REQ_SUBTYPE_DEBIT
		member := "ServiceRating.ConsumedUnits"
		if vx.Choice("subtype", 2) == 1 {
			sub, member = charging_datatype.REQ_SUBTYPE_RESERVE, "ServiceRating.MonetaryQuota"
		}
		first := vx.Uint32("first")
		vx.Assume(first >= 1 && first <= 100000)
		h(conn, mk(sub, first))
		m2 := mk(sub, 0)
		vx.OmitAVP(m2, member)
		h(conn, m2)
		var sua charging_datatype.ServiceUsageResponse
		ok := vx.AnswerTo(m2, &sua)
		vx.Assert("the second request is answered", ok)
		if ok && sua.ServiceRating != nil {
			vx.Assert("an absent AVP is received as absent (priced 0)", sua.ServiceRating.Price == 0 && sua.ServiceRating.AllowedUnits == 0)
		}
		return
	}
	// account server: a refund request without Requested-Service-Unit after a
	// reservation that carried one must not refund the earlier amount
	q := vx.Int64("balance")
	vx.Assume(q >= 0 && q < 1<<40)
	vx.DBPut("imsi-ab", 1, "quota", strconv.FormatInt(q, 10))
	h := abmfsrv.ZZHandleCCR()
	mk := func(action charging_datatype.RequestedAction, amount uint64, withRequested bool) *diam.Message {
		var ccr charging_datatype.AccountDebitRequest
		ccr.SessionId = "s"
		ccr.CcRequestType = charging_datatype.UPDATE_REQUEST
		ccr.RequestedAction = action
		ccr.SubscriptionId = &charging_datatype.SubscriptionId{SubscriptionIdType: charging_datatype.END_USER_IMSI, SubscriptionIdData: "ab"}
		ccr.MultipleServicesCreditControl = &charging_datatype.MultipleServicesCreditControl{RatingGroup: 1}
		if withRequested {
			ccr.MultipleServicesCreditControl.RequestedServiceUnit = &charging_datatype.RequestedServiceUnit{CCTotalOctets: datatype.Unsigned64(amount)}
		}
		msg := diam.NewRequest(272, 4, nil)
		vx.Assert("request marshals", msg.Marshal(&ccr) == nil)
		return msg
	}
	amount := vx.Uint64("amount")
	vx.Assume(amount >= 1 && amount < 1<<30)
	h(conn, mk(charging_datatype.DIRECT_DEBITING, amount, true))
	s1, _ := vx.DBGet("imsi-ab", 1, "quota")
	b1, _ := strconv.ParseInt(s1, 10, 64)
	// the malformed follow-up may be rejected, ignored or crash the handler
	// (recovered by go-diameter); what it must not do is move money by the
	// amount of the earlier request
	func() {
		defer func() { _ = recover() }()
		h(conn, mk(charging_datatype.REFUND_ACCOUNT, 0, false))
	}()
	s2, _ := vx.DBGet("imsi-ab", 1, "quota")
	b2, _ := strconv.ParseInt(s2, 10, 64)
	vx.Assert("a request without a requested-unit group does not act on the amount of an earlier request", b2 == b1)
}
