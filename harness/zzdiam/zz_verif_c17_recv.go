package zzdiam

//gosx:file replay=engine

import (
	"strconv"

	"github.com/fiorix/go-diameter/diam"
	"github.com/fiorix/go-diameter/diam/datatype"
	"github.com/fiorix/go-diameter/diam/sm"

	charging_datatype "github.com/free5gc/chf/ccs_diameter/datatype"
	chf_context "github.com/free5gc/chf/internal/context"
	"github.com/free5gc/chf/internal/rating"
	abmfsrv "github.com/free5gc/chf/pkg/abmf"
	"github.com/free5gc/chf/pkg/factory"
	rfsrv "github.com/free5gc/chf/pkg/rf"
	vx "github.com/free5gc/chf/zzvx"
)

// C17 (receive side of the two servers): each request is received with its
// own members only. A request in which an optional AVP (or grouped AVP) is
// absent, served by the same handler instance after a request that carried
// it, is treated as not carrying it - go-diameter's Unmarshal writes only the
// members that are present, so a decode target that outlives one request
// would keep the earlier values. Observed through the servers' answers.
// (The message stub decodes member-wise like go-diameter; vx.OmitAVP leaves
// an AVP out of a message.)
//
//gosx:property=C17 tier=quick unwind=40 timeout=30000
func ZZ_C17_AbsentMembersAreReceivedAsAbsent() {
	conn, _ := vx.DiamConn().(diam.Conn)
	if vx.Choice("server", 2) == 0 {
		// rating server: Monetary-Quota / Consumed-Units absent = 0
		vx.DBPut("imsi-ab", 1, "unitCost", "7")
		h := rfsrv.ZZHandleSUR()
		mk := func(sub charging_datatype.RequestSubType, v uint32) *diam.Message {
			var sur charging_datatype.ServiceUsageRequest
			sur.SessionId = "s"
			sur.SubscriptionId = &charging_datatype.SubscriptionId{SubscriptionIdType: charging_datatype.END_USER_IMSI, SubscriptionIdData: "ab"}
			sur.ServiceRating = &charging_datatype.ServiceRating{ServiceIdentifier: 1, RequestSubType: sub,
				ConsumedUnits: datatype.Unsigned32(v), MonetaryQuota: datatype.Unsigned32(v)}
			msg := diam.NewRequest(111, 16777218, nil)
			vx.Assert("request marshals", msg.Marshal(&sur) == nil)
			return msg
		}
		sub := charging_datatype.REQ_SUBTYPE_DEBIT
		member := "ServiceRating.ConsumedUnits"
		if vx.Choice("subtype", 2) == 1 {
			sub, member = charging_datatype.REQ_SUBTYPE_RESERVE, "ServiceRating.MonetaryQuota"
		}
		first := vx.Uint32("first")
		vx.Assume(first >= 1 && first <= 100000)
		h(conn, mk(sub, first))
		m2 := mk(sub, 0)
		vx.OmitAVP(m2, member)
		h(conn, m2)
		var sua charging_datatype.ServiceUsageResponse
		ok := vx.AnswerTo(m2, &sua)
		vx.Assert("the second request is answered", ok)
		if ok && sua.ServiceRating != nil {
			vx.Assert("an absent AVP is received as absent (priced 0)", sua.ServiceRating.Price == 0 && sua.ServiceRating.AllowedUnits == 0)
		}
		return
	}
	// account server: a refund request without Requested-Service-Unit after a
	// reservation that carried one must not refund the earlier amount
	q := vx.Int64("balance")
	vx.Assume(q >= 0 && q < 1<<40)
	vx.DBPut("imsi-ab", 1, "quota", strconv.FormatInt(q, 10))
	h := abmfsrv.ZZHandleCCR()
	mk := func(action charging_datatype.RequestedAction, amount uint64, withRequested bool) *diam.Message {
		var ccr charging_datatype.AccountDebitRequest
		ccr.SessionId = "s"
		ccr.CcRequestType = charging_datatype.UPDATE_REQUEST
		ccr.RequestedAction = action
		ccr.SubscriptionId = &charging_datatype.SubscriptionId{SubscriptionIdType: charging_datatype.END_USER_IMSI, SubscriptionIdData: "ab"}
		ccr.MultipleServicesCreditControl = &charging_datatype.MultipleServicesCreditControl{RatingGroup: 1}
		if withRequested {
			ccr.MultipleServicesCreditControl.RequestedServiceUnit = &charging_datatype.RequestedServiceUnit{CCTotalOctets: datatype.Unsigned64(amount)}
		}
		msg := diam.NewRequest(272, 4, nil)
		vx.Assert("request marshals", msg.Marshal(&ccr) == nil)
		return msg
	}
	amount := vx.Uint64("amount")
	vx.Assume(amount >= 1 && amount < 1<<30)
	h(conn, mk(charging_datatype.DIRECT_DEBITING, amount, true))
	s1, _ := vx.DBGet("imsi-ab", 1, "quota")
	b1, _ := strconv.ParseInt(s1, 10, 64)
	// the malformed follow-up may be rejected, ignored or crash the handler
	// (recovered by go-diameter); what it must not do is move money by the
	// amount of the earlier request
	func() {
		defer func() { _ = recover() }()
		h(conn, mk(charging_datatype.REFUND_ACCOUNT, 0, false))
	}()
	s2, _ := vx.DBGet("imsi-ab", 1, "quota")
	b2, _ := strconv.ParseInt(s2, 10, 64)
	vx.Assert("a request without a requested-unit group does not act on the amount of an earlier request", b2 == b1)
}

// C17 (what the CHF's rating client hands to its caller): the answer of a
// rating peer - here a peer defined by the harness, which answers with every
// combination of the optional tariff members (no tariff; tariff without rate
// element; rate element without unit cost; scale factor / currency / unit
// type with or without unit cost) - is received by the caller of
// rating.SendServiceUsageRequest member for member as the peer sent it.
//
//gosx:property=C17 tier=quick unwind=40 timeout=30000
func ZZ_C17_RatingAnswerReceivedAsSent() {
	self := chf_context.GetSelf()
	self.RatingCfg = &sm.Settings{OriginHost: "chf-rating", OriginRealm: "realm"}
	self.AbmfCfg = &sm.Settings{OriginHost: "chf-abmf", OriginRealm: "realm"}
	factory.ChfConfig = &factory.Config{Configuration: &factory.Configuration{VolumeThresholdRate: 0.8,
		RfDiameter:   &factory.Diameter{Protocol: "tcp", HostIPv4: "127.0.0.1", Port: 3868, Tls: &factory.Tls{Pem: "rf.pem", Key: "rf.key"}},
		AbmfDiameter: &factory.Diameter{Protocol: "tcp", HostIPv4: "127.0.0.1", Port: 3869, Tls: &factory.Tls{Pem: "abmf.pem", Key: "abmf.key"}}}}
	ue, err := self.NewCHFUe("imsi-208930000000001")
	if err != nil || ue == nil {
		vx.Fail("subscriber context created")
		return
	}
	var sent charging_datatype.ServiceUsageResponse
	sent.SessionId = "s"
	sr := &charging_datatype.ServiceRating{ServiceIdentifier: 1, Price: datatype.Unsigned32(vx.Uint32("price")), AllowedUnits: datatype.Unsigned32(vx.Uint32("allowed"))}
	shape := vx.Choice("tariff", 5)
	if shape >= 1 {
		mt := &charging_datatype.MonetaryTariff{CurrencyCode: datatype.Unsigned32(vx.Uint32("currency"))}
		if shape >= 2 {
			mt.ScaleFactor = &charging_datatype.ScaleFactor{ValueDigits: datatype.Integer64(vx.Int64("scale.digits")), Exponent: datatype.Integer32(vx.Int32("scale.exp"))}
		}
		if shape >= 3 {
			mt.RateElement = &charging_datatype.RateElement{CCUnitType: charging_datatype.MONEY}
		}
		if shape >= 4 {
			mt.RateElement.UnitCost = &charging_datatype.UnitCost{ValueDigits: datatype.Integer64(vx.Int64("cost.digits")), Exponent: datatype.Integer32(vx.Int32("cost.exp"))}
		}
		sr.MonetaryTariff = mt
	}
	sent.ServiceRating = sr
	vx.Register("diam.server.111", diam.HandlerFunc(func(c diam.Conn, m *diam.Message) {
		a := m.Answer(diam.Success)
		if a.Marshal(&sent) == nil {
			a.WriteTo(c)
		}
	}))
	sub := &charging_datatype.SubscriptionId{SubscriptionIdType: charging_datatype.END_USER_IMSI, SubscriptionIdData: "208930000000001"}
	got, err := rating.SendServiceUsageRequest(ue, &charging_datatype.ServiceUsageRequest{SessionId: "s", SubscriptionId: sub,
		ServiceRating: &charging_datatype.ServiceRating{ServiceIdentifier: 1, RequestSubType: charging_datatype.REQ_SUBTYPE_RESERVE}})
	vx.Assert("the rating answer reaches the caller", err == nil && got != nil)
	if err == nil && got != nil {
		vx.Assert("the answer handed to the caller is, member for member, what the peer sent", vx.Equal(*got, sent))
	}
}
