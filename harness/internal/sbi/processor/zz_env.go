package processor

import (
	"strconv"

	"github.com/fiorix/go-diameter/diam/sm"

	chf_context "github.com/free5gc/chf/internal/context"
	abmfsrv "github.com/free5gc/chf/pkg/abmf"
	"github.com/free5gc/chf/pkg/factory"
	rfsrv "github.com/free5gc/chf/pkg/rf"
	vx "github.com/free5gc/chf/zzvx"
	"github.com/free5gc/openapi/models"
)

const (
	zzSupi  = "imsi-208930000000001"
	zzSupi2 = "imsi-208930000000002"
)

// zzSetup puts the CHF context and configuration into the state the service
// has after start-up and connects the real rating / account-balance server
// handlers to the Diameter transport stub.
func zzSetup() *Processor {
	self := chf_context.GetSelf()
	self.Name = "chf"
	self.NfId = "chf-nf-id"
	self.Url = "http://chf.example"
	self.RatingCfg = &sm.Settings{OriginHost: "chf-rating", OriginRealm: "realm"}
	self.AbmfCfg = &sm.Settings{OriginHost: "chf-abmf", OriginRealm: "realm"}
	factory.ChfConfig = &factory.Config{
		Configuration: &factory.Configuration{
			RfDiameter:   &factory.Diameter{Protocol: "tcp", HostIPv4: "127.0.0.1", Port: 3868, Tls: &factory.Tls{Pem: "rf.pem", Key: "rf.key"}},
			AbmfDiameter: &factory.Diameter{Protocol: "tcp", HostIPv4: "127.0.0.1", Port: 3869, Tls: &factory.Tls{Pem: "abmf.pem", Key: "abmf.key"}},
			VolumeLimit:  vx.Int32("cfg.volumeLimit"), VolumeLimitPDU: vx.Int32("cfg.volumeLimitPDU"), QuotaValidityTime: vx.Int32("cfg.quotaValidityTime"),
			VolumeThresholdRate: 0.8,
		},
	}
	vx.Register("diam.server.272", abmfsrv.ZZHandleCCR())
	vx.Register("diam.server.111", rfsrv.ZZHandleSUR())
	return &Processor{}
}

// zzAccount creates the stored charging data of (supi, rg): balance q and an
// integer unit cost in 1..9999 (constant during the step).
func zzAccount(supi string, rg int32, q int64, cost int64) {
	vx.DBPut(supi, uint32(rg), "quota", strconv.FormatInt(q, 10))
	vx.DBPut(supi, uint32(rg), "unitCost", strconv.FormatInt(cost, 10))
}

func zzBalance(supi string, rg int32) int64 {
	s, ok := vx.DBGet(supi, uint32(rg), "quota")
	vx.Assert("account row still present", ok)
	v, err := strconv.ParseInt(s, 10, 64)
	vx.Assert("stored balance is an integer", err == nil)
	return v
}

func zzIndicator(label string) models.QuotaManagementIndicator { return zzIndicatorN(label, 4) }

func zzIndicatorN(label string, n int) models.QuotaManagementIndicator {
	if n == 1 {
		return models.QuotaManagementIndicator_OFFLINE_CHARGING
	}
	switch vx.Choice(label, n) {
	case 0:
		return models.QuotaManagementIndicator_ONLINE_CHARGING
	case 1:
		return models.QuotaManagementIndicator_OFFLINE_CHARGING
	case 2:
		return models.QuotaManagementIndicator_QUOTA_MANAGEMENT_SUSPENDED
	default:
		return models.QuotaManagementIndicator("")
	}
}

func zzTrigger(label string) models.ChfConvergedChargingTrigger {
	switch vx.Choice(label, 4) {
	case 0:
		return models.ChfConvergedChargingTrigger{TriggerType: models.ChfConvergedChargingTriggerType_FINAL}
	case 1:
		return models.ChfConvergedChargingTrigger{TriggerType: models.ChfConvergedChargingTriggerType_VOLUME_LIMIT, TriggerCategory: models.TriggerCategory_IMMEDIATE_REPORT}
	case 2:
		return models.ChfConvergedChargingTrigger{TriggerType: models.ChfConvergedChargingTriggerType_MANAGEMENT_INTERVENTION}
	default:
		return models.ChfConvergedChargingTrigger{TriggerType: models.ChfConvergedChargingTriggerType_QUOTA_THRESHOLD, TriggerCategory: models.TriggerCategory_IMMEDIATE_REPORT}
	}
}

// zzCostChoice forks over a fixed set of integer unit costs (1 to 4 digits).
// Symbolic x symbolic products at processor level are not decided by the
// available solvers within the time limits (see DESIGN.md); symbolic unit
// costs are covered at server level by C08.
func zzCostChoice() int64 {
	costs := []int64{1, 2, 10, 333, 9999}
	if vx.Param("nshards", 1) == len(costs) {
		return costs[vx.Param("shard", 0)] // one unit cost per shard
	}
	return costs[vx.Choice("cost", vx.Param("costs", 5))]
}
