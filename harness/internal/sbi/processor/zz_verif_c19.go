package processor

//gosx:file init=github.com/free5gc/chf/cdr/asn replay=engine

import (
	"time"

	"github.com/fiorix/go-diameter/diam/datatype"

	charging_datatype "github.com/free5gc/chf/ccs_diameter/datatype"
	"github.com/free5gc/chf/internal/abmf"
	chf_context "github.com/free5gc/chf/internal/context"
	"github.com/free5gc/chf/internal/rating"
	vx "github.com/free5gc/chf/zzvx"
)

// C19: two consecutive requests of one subscriber towards a peer; the answer
// to the first may be prompt, lost, or delayed beyond the 5 s client timer and
// delivered afterwards (before the second request starts).
//
//	(i)  the answer the second request acts on is the answer to the second
//	     request (same CC-Request-Number / rating group);
//	(ii) the second request completes: a late answer must not leave a handler
//	     blocked under go-diameter's mux read lock, which would make the next
//	     mux.Handle (write lock) block for ever.
//
// The transport is the stub of the other accounting harnesses; go-diameter's
// ServeMux locking is modelled from its source (ServeDIAM: RLock held while
// the handler runs; Handle: Lock).
//
//gosx:property=C19 tier=quick unwind=40 timeout=30000
func ZZ_C19_LateAnswers() {
	zzSetup()
	zzAccount(zzSupi, 1, 1000000, 10)
	self := chf_context.GetSelf()
	ue, err := self.NewCHFUe(zzSupi)
	vx.Assert("subscriber context created", err == nil && ue != nil)
	vx.Config("diam.answerMayBeLate", true)
	vx.Config("diam.answerMayBeLost", true)
	// goroutines started by the code under test run as scheduled threads; during
	// the first request timers may fire at any moment (slow peer), during the
	// second the peer is prompt: a timer never beats an answer that will come
	vx.Scheduler(2)
	vx.Config("sched.timersFire", true)

	peer := vx.Choice("peer", 3)
	sub := &charging_datatype.SubscriptionId{SubscriptionIdType: charging_datatype.END_USER_IMSI, SubscriptionIdData: datatype.UTF8String(zzSupi[5:])}
	if peer == 0 {
		mk := func(n uint32) *charging_datatype.AccountDebitRequest {
			return &charging_datatype.AccountDebitRequest{SessionId: "s", SubscriptionId: sub, CcRequestNumber: datatype.Unsigned32(n),
				CcRequestType: charging_datatype.UPDATE_REQUEST, RequestedAction: charging_datatype.DIRECT_DEBITING,
				MultipleServicesCreditControl: &charging_datatype.MultipleServicesCreditControl{RatingGroup: 1,
					RequestedServiceUnit: &charging_datatype.RequestedServiceUnit{CCTotalOctets: 10}}}
		}
		n1 := vx.Uint32("reqnum")
		first := mk(n1)
		if vx.Choice("firstAnswerCarriesFinalUnit", 2) == 1 {
			// the first answer carries optional members (final-unit indication)
			// that the second one does not
			zzAccount(zzSupi, 2, 5, 10)
			first.MultipleServicesCreditControl.RatingGroup = 2
		}
		_, err1 := abmf.SendAccountDebitRequest(ue, first)
		_ = err1
		vx.Tag("stale", len(ue.AcctChan) > 0)
		vx.DeliverLateAnswers()
		vx.Config("diam.answerMayBeLate", false)
		vx.Config("diam.answerMayBeLost", false)
		vx.Config("sched.timersFire", false)
		rsp, err2 := abmf.SendAccountDebitRequest(ue, mk(n1+1))
		vx.Assert("second credit-control request completes with an answer", err2 == nil && rsp != nil)
		if err2 == nil && rsp != nil {
			vx.Assert("the answer acted on carries the second request's CC-Request-Number", uint32(rsp.CcRequestNumber) == n1+1)
			var sent charging_datatype.AccountDebitResponse
			if vx.LastAnswer(&sent) {
				vx.Assert("the answer acted on is, member for member, what the peer sent for the second request (nothing of an earlier answer)", vx.Equal(*rsp, sent))
			}
		}
		return
	}
	mk := func(rg uint32) *charging_datatype.ServiceUsageRequest {
		return &charging_datatype.ServiceUsageRequest{SessionId: datatype.UTF8String("s" + string(rune('0'+rg))), SubscriptionId: sub, ActualTime: datatype.Time(time.Now()),
			ServiceRating: &charging_datatype.ServiceRating{ServiceIdentifier: datatype.Unsigned32(rg), RequestSubType: charging_datatype.REQ_SUBTYPE_RESERVE, MonetaryQuota: 100}}
	}
	zzAccount(zzSupi, 2, 1000000, 3)
	if peer == 2 {
		// one request object, stamped when it is built, serves consecutive
		// rating requests of the same operation (as the processor does for the
		// tariff lookup, the reservation and the second tariff lookup): the
		// first answer is lost or late, the following requests meet a prompt peer
		sur := mk(1)
		_, errA := rating.SendServiceUsageRequest(ue, sur)
		_ = errA
		vx.Tag("stale", len(ue.RatingChan) > 0)
		vx.DeliverLateAnswers()
		vx.Config("diam.answerMayBeLate", false)
		vx.Config("diam.answerMayBeLost", false)
		vx.Config("sched.timersFire", false)
		rspB, errB := rating.SendServiceUsageRequest(ue, sur)
		vx.Assert("the next rating request built from the same request object completes with an answer", errB == nil && rspB != nil)
		return
	}
	_, err1 := rating.SendServiceUsageRequest(ue, mk(1))
	_ = err1
	vx.Tag("stale", len(ue.RatingChan) > 0)
	vx.DeliverLateAnswers()
	vx.Config("diam.answerMayBeLate", false)
	vx.Config("diam.answerMayBeLost", false)
	vx.Config("sched.timersFire", false)
	rsp, err2 := rating.SendServiceUsageRequest(ue, mk(2))
	vx.Assert("second service-usage request completes with an answer", err2 == nil && rsp != nil)
	if err2 == nil && rsp != nil {
		vx.Assert("the answer acted on belongs to the second request (session id echoed)", rsp.SessionId == "s2")
	}
}

// Known-finding region: the first request's answer had reached the
// subscriber's channel at the moment its 5 s timer fired (select took the
// timer); the answer stays queued for the subscriber.
func ZZ_C19_regionAnswerRacedTimer(stale bool) bool { return stale }
