package processor

//gosx:file init=github.com/free5gc/chf/cdr/asn replay=engine

import (
	"github.com/gin-gonic/gin"

	charging_datatype "github.com/free5gc/chf/ccs_diameter/datatype"
	chf_context "github.com/free5gc/chf/internal/context"
	vx "github.com/free5gc/chf/zzvx"
	"github.com/free5gc/openapi/models"
)

// zzUsage builds one usage entry for rating group rg with nCont used-unit
// containers; it returns the entry and the online volume it reports.
func zzUsage(l string, rg int32, nCont int) (models.ChfConvergedChargingMultipleUnitUsage, int64) {
	return zzUsageInd(l, rg, nCont, 4)
}

// zzUsageInd: as zzUsage with the quota management indicator forked over the
// first nInd alternatives (ONLINE, OFFLINE, SUSPENDED, other).
func zzUsageInd(l string, rg int32, nCont int, nInd int) (models.ChfConvergedChargingMultipleUnitUsage, int64) {
	u := models.ChfConvergedChargingMultipleUnitUsage{RatingGroup: rg, UPFID: "upf"}
	req := vx.Int32(l + ".requested")
	vx.Assume(req >= 0)
	u.RequestedUnit = &models.RequestedUnit{TotalVolume: req}
	var online int64
	for i := 0; i < nCont; i++ {
		li := l + ".c" + string(rune('0'+i))
		used := vx.Int32(li + ".used")
		vx.Assume(used >= 0)
		ind := zzIndicatorN(li+".indicator", nInd)
		u.UsedUnitContainer = append(u.UsedUnitContainer, models.ChfConvergedChargingUsedUnitContainer{
			QuotaManagementIndicator: ind, TotalVolume: used, UplinkVolume: vx.Int32(li + ".up"), DownlinkVolume: vx.Int32(li + ".down"),
			LocalSequenceNumber: vx.Int32(li + ".seq"), ServiceSpecificUnits: vx.Int32(li + ".ssu"),
		})
		if ind == models.QuotaManagementIndicator_ONLINE_CHARGING {
			online += int64(used)
		}
	}
	return u, online
}

// zzPreState creates the subscriber with an arbitrary accounting state for rg
// that satisfies the representation invariant of C01.
func zzPreState(rg int32) (ue *chf_context.ChfUe, reserved int64) {
	self := chf_context.GetSelf()
	ue, err := self.NewCHFUe(zzSupi)
	vx.Assert("subscriber context created", err == nil && ue != nil)
	switch vx.Choice("pre.group", 3) {
	case 0: // group not seen before
		return ue, 0
	case 1:
		ue.RatingType[rg] = charging_datatype.REQ_SUBTYPE_RESERVE
	default:
		ue.RatingType[rg] = charging_datatype.REQ_SUBTYPE_DEBIT
	}
	ue.RatingGroups = append(ue.RatingGroups, rg)
	reserved = vx.Int64("pre.reserved")
	vx.Assume(reserved > -(1 << 40))
	vx.Assume(reserved < 1<<40)
	ue.ReservedQuota[rg] = reserved
	ue.AcctRequestNum[rg] = vx.Uint32("pre.reqnum")
	return ue, reserved
}

// C01 inductive step: one arbitrary update/release-style credit-control step
// from an arbitrary state preserves
//
//	balance + reservation = (balance + reservation before) - cost x online usage reported.
//
//gosx:property=C01 tier=quick shards=5 unwind=40 p.containers=2 timeout=30000
func ZZ_C01_Step() {
	zzSetup()
	rg := vx.Int32("rg")
	q := vx.Int64("balance")
	vx.Assume(q > -(1 << 40))
	vx.Assume(q < 1<<40)
	cost := zzCostChoice()
	zzAccount(zzSupi, rg, q, cost)
	// an unrelated account that every step must leave alone
	q2 := vx.Int64("other.balance")
	zzAccount(zzSupi2, rg, q2, 7)
	ue, reserved := zzPreState(rg)

	usage, online := zzUsage("u0", rg, vx.Param("containers", 1))
	req := models.ChfConvergedChargingChargingDataRequest{SubscriberIdentifier: zzSupi, MultipleUnitUsage: []models.ChfConvergedChargingMultipleUnitUsage{usage}}
	if vx.Choice("trigger", 2) == 1 {
		req.Triggers = []models.ChfConvergedChargingTrigger{zzTrigger("trigger.kind")}
	}
	// quantifier of C01: products fit the Unsigned32 Price / Monetary-Quota AVPs
	vx.Assume(online*cost < 1<<32)
	vx.Assume(int64(usage.RequestedUnit.TotalVolume)*cost < 1<<32)

	sessionChargingReservation(req)

	after := zzBalance(zzSupi, rg)
	vx.Assert("credit conserved: balance + reservation = before - cost x online usage",
		after+ue.ReservedQuota[rg] == q+reserved-cost*online)
	vx.Assert("unrelated account untouched", zzBalance(zzSupi2, rg) == q2)
}

// zzTwoGroups sets up one subscriber with two rating groups A and B, each with
// its own account and an arbitrary reserve-mode pre-state, and one request
// reporting online usage for both groups.
type zzTwo struct {
	rg            [2]int32
	q, reserved   [2]int64
	used, request [2]int32
	cost          int64
}

func zzTwoGroupsSetup(nonNegative bool) (*zzTwo, models.ChfConvergedChargingChargingDataRequest) {
	zzSetup()
	t := &zzTwo{}
	t.cost = []int64{1, 333}[vx.Choice("cost2", 2)]
	t.rg[0], t.rg[1] = vx.Int32("rgA"), vx.Int32("rgB")
	vx.Assume(t.rg[0] != t.rg[1])
	self := chf_context.GetSelf()
	ue, err := self.NewCHFUe(zzSupi)
	vx.Assert("subscriber context created", err == nil && ue != nil)
	var entries []models.ChfConvergedChargingMultipleUnitUsage
	for i := 0; i < 2; i++ {
		l := "g" + string(rune('A'+i))
		t.q[i] = vx.Int64(l + ".balance")
		t.reserved[i] = vx.Int64(l + ".reserved")
		if nonNegative {
			vx.Assume(t.q[i] >= 0)
			vx.Assume(t.reserved[i] >= 0)
		} else {
			vx.Assume(t.q[i] > -(1 << 40))
			vx.Assume(t.reserved[i] > -(1 << 40))
		}
		vx.Assume(t.q[i] < 1<<40)
		vx.Assume(t.reserved[i] < 1<<40)
		zzAccount(zzSupi, t.rg[i], t.q[i], t.cost)
		ue.RatingGroups = append(ue.RatingGroups, t.rg[i])
		ue.RatingType[t.rg[i]] = charging_datatype.REQ_SUBTYPE_RESERVE
		ue.ReservedQuota[t.rg[i]] = t.reserved[i]
		t.used[i] = vx.Int32(l + ".used")
		t.request[i] = vx.Int32(l + ".requested")
		vx.Assume(t.used[i] >= 0)
		vx.Assume(t.request[i] >= 0)
		vx.Assume(int64(t.used[i])*t.cost < 1<<31)
		vx.Assume(int64(t.request[i])*t.cost < 1<<31)
		entries = append(entries, models.ChfConvergedChargingMultipleUnitUsage{RatingGroup: t.rg[i], UPFID: "upf",
			RequestedUnit:     &models.RequestedUnit{TotalVolume: t.request[i]},
			UsedUnitContainer: []models.ChfConvergedChargingUsedUnitContainer{{QuotaManagementIndicator: models.QuotaManagementIndicator_ONLINE_CHARGING, TotalVolume: t.used[i]}}})
	}
	req := models.ChfConvergedChargingChargingDataRequest{SubscriberIdentifier: zzSupi, MultipleUnitUsage: entries}
	if vx.Choice("trigger", 2) == 1 {
		req.Triggers = []models.ChfConvergedChargingTrigger{zzTrigger("trigger.kind")}
	}
	return t, req
}

// C01 with several rating groups in one request: conservation holds for each
// group separately (usage reported for one group never moves another group's
// money).
//
//gosx:property=C01 tier=quick unwind=40 timeout=30000
func ZZ_C01_TwoGroups() {
	t, req := zzTwoGroupsSetup(false)
	sessionChargingReservation(req)
	ue, _ := chf_context.GetSelf().ChfUeFindBySupi(zzSupi)
	for i := 0; i < 2; i++ {
		after := zzBalance(zzSupi, t.rg[i])
		vx.Assert("credit conserved per rating group", after+ue.ReservedQuota[t.rg[i]] == t.q[i]+t.reserved[i]-t.cost*int64(t.used[i]))
	}
}

// C01 over histories, through the real request handlers: a fresh account, two
// sessions A and B of one subscriber that share a rating group, then up to N
// operations, each one of: update of A, update of B, release of B (once),
// an account recharge of an arbitrary amount followed by the recharge
// notification. After every operation
//
//	balance + reservation held = initial balance + recharges - cost x online usage reported
//
// Bounds: N = 2 (thorough 3), balance and recharges < 2^20, volumes < 128
// (one INTEGER length class, so that record encoding does not fork), unit
// cost 1 or 2, one usage entry with one online container per request.
//
//gosx:property=C01 tier=quick shards=8 unwind=40 timeout=30000 p.steps=2 p.steps.thorough=3 maxseconds=900 maxseconds.thorough=3000
func ZZ_C01_History() {
	p := zzSetup()
	rg := int32(1)
	q := vx.Int64("balance")
	vx.Assume(q >= 0)
	vx.Assume(q < 1<<20)
	shard := vx.Param("shard", 0)
	sharded := vx.Param("nshards", 1) == 8
	cost := int64(1)
	if sharded {
		cost = []int64{1, 2}[shard&1]
	} else {
		cost = []int64{1, 2}[vx.Choice("cost", 2)]
	}
	zzAccount(zzSupi, rg, q, cost)
	refA, _ := zzCreate(p, "A", zzSupi)
	refB, _ := zzCreate(p, "B", zzSupi)
	ue, found := chf_context.GetSelf().ChfUeFindBySupi(zzSupi)
	if !found {
		vx.Fail("subscriber context exists")
		return
	}
	credited, spent := q, int64(0)
	releasedB := false
	for i := 0; i < vx.Param("steps", 3); i++ {
		l := "s" + string(rune('0'+i))
		var op int
		if i == 0 && sharded {
			op = shard >> 1 // the first operation is fixed per shard
		} else {
			op = vx.Choice(l+".op", 4)
		}
		if op == 2 && releasedB {
			op = 1
		}
		if op == 3 {
			amount := vx.Int64(l + ".recharge")
			vx.Assume(amount >= 0)
			vx.Assume(amount < 1<<20)
			zzAccount(zzSupi, rg, zzBalance(zzSupi, rg)+amount, cost)
			credited += amount
			p.NotifyRecharge(zzSupi, rg)
		} else {
			u, _ := zzUsageInd(l, rg, 1, 1)
			zzSmallUsage(&u)
			u.UsedUnitContainer[0].QuotaManagementIndicator = models.QuotaManagementIndicator_ONLINE_CHARGING
			req := models.ChfConvergedChargingChargingDataRequest{SubscriberIdentifier: zzSupi,
				MultipleUnitUsage: []models.ChfConvergedChargingMultipleUnitUsage{u}}
			c := &gin.Context{}
			switch {
			case op == 0:
				p.HandleChargingdataUpdate(c, req, refA)
				vx.Assert("update answered 200", vx.HTTPStatus(c) == 200)
			case op == 1 && !releasedB:
				p.HandleChargingdataUpdate(c, req, refB)
				vx.Assert("update answered 200", vx.HTTPStatus(c) == 200)
			case op == 1:
				p.HandleChargingdataUpdate(c, req, refA)
				vx.Assert("update answered 200", vx.HTTPStatus(c) == 200)
			default:
				p.HandleChargingdataRelease(c, req, refB)
				vx.Assert("release answered 204", vx.HTTPStatus(c) == 204)
				releasedB = true
			}
			spent += int64(u.UsedUnitContainer[0].TotalVolume) * cost
		}
		vx.Assert("credit conserved over the history: balance + reservation = credited - cost x online usage",
			zzBalance(zzSupi, rg)+ue.ReservedQuota[rg] == credited-spent)
	}
}
