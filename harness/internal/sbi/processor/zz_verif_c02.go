package processor

//gosx:file init=github.com/free5gc/chf/cdr/asn replay=engine

import (
	"strings"

	"github.com/gin-gonic/gin"

	"github.com/free5gc/chf/cdr/cdrType"
	chf_context "github.com/free5gc/chf/internal/context"
	vx "github.com/free5gc/chf/zzvx"
	"github.com/free5gc/openapi/models"
)

func zzCreate(p *Processor, l, supi string) (ref string, req models.ChfConvergedChargingChargingDataRequest) {
	return zzCreateNamed(p, l, supi, -1)
}

// zzCreateNamed: as zzCreate with a consumer name of nameLen arbitrary bytes
// (nameLen < 0: the default length).
func zzCreateNamed(p *Processor, l, supi string, nameLen int) (ref string, req models.ChfConvergedChargingChargingDataRequest) {
	req = zzCreateReq(l, supi)
	if nameLen >= 0 {
		req.NfConsumerIdentification.NFName = vx.String(l+".name", nameLen)
	}
	c := &gin.Context{}
	p.HandleChargingdataInitial(c, req)
	vx.Assert("create answered 201", vx.HTTPStatus(c) == 201)
	loc := vx.HTTPHeader(c, "Location")
	vx.Assume(strings.HasPrefix(loc, zzRefPrefix))
	return loc[len(zzRefPrefix):], req
}

// zzUsageList returns the usage entries of the record(s) of session ref, in
// record order (the session's records are those carrying its identifier).
func zzUsageList(ue *chf_context.ChfUe, ref string) []cdrType.MultipleUnitUsage {
	var out []cdrType.MultipleUnitUsage
	for _, r := range ue.Records {
		if r == nil || r.ChargingFunctionRecord == nil {
			continue
		}
		id := r.ChargingFunctionRecord.ChargingSessionIdentifier
		if id != nil && string(id.Value) == ref {
			out = append(out, r.ChargingFunctionRecord.ListOfMultipleUnitUsage...)
		}
	}
	return out
}

// zzSameUsage: the CDR entry carries exactly what the request entry reported.
func zzSameUsage(got cdrType.MultipleUnitUsage, want models.ChfConvergedChargingMultipleUnitUsage) bool {
	ok := got.RatingGroup.Value == int64(want.RatingGroup)
	ok = vx.And(ok, len(got.UsedUnitContainers) == len(want.UsedUnitContainer))
	if len(got.UsedUnitContainers) != len(want.UsedUnitContainer) {
		return false
	}
	for i, w := range want.UsedUnitContainer {
		g := got.UsedUnitContainers[i]
		if g.DataTotalVolume == nil || g.DataVolumeUplink == nil || g.DataVolumeDownlink == nil || g.ServiceSpecificUnits == nil || g.LocalSequenceNumber == nil {
			return false
		}
		ok = vx.And(ok, g.DataTotalVolume.Value == int64(w.TotalVolume))
		ok = vx.And(ok, g.DataVolumeUplink.Value == int64(w.UplinkVolume))
		ok = vx.And(ok, g.DataVolumeDownlink.Value == int64(w.DownlinkVolume))
		ok = vx.And(ok, *g.ServiceSpecificUnits == int64(w.ServiceSpecificUnits))
		ok = vx.And(ok, g.LocalSequenceNumber.Value == int64(w.LocalSequenceNumber))
	}
	return ok
}

// C02 (a)+(b): one subscriber with two concurrent sessions A and B; an update
// or release naming one of them records each reported usage entry exactly
// once, in order, in that session's record and nowhere else; the record keeps
// the identification given at creation; cause for closing is normal on release.
//
//gosx:property=C02 tier=quick shards=4 unwind=40 timeout=30000 p.entries=1 p.entries.thorough=2 p.containers=2
func ZZ_C02_UsageRecorded() {
	p := zzSetup()
	rg := vx.Int32("rg")
	vx.Assume(rg >= 0)
	vx.Assume(rg <= 127)
	zzAccount(zzSupi, rg, 1000000, 10)
	// consumer names of different lengths: one session reference may be a
	// proper prefix of the other (names "" and "-0x": <supi>-0 and <supi>-0x-1)
	lenA, lenB := 2, 2
	if vx.Choice("namelens", 2) == 1 {
		lenA, lenB = 0, 3
	}
	refA, reqA := zzCreateNamed(p, "A", zzSupi, lenA)
	refB, _ := zzCreateNamed(p, "B", zzSupi, lenB)
	ue, found := chf_context.GetSelf().ChfUeFindBySupi(zzSupi)
	vx.Assert("subscriber context exists", found)
	if !found {
		return
	}
	// (b) identification in the opened record
	recA := ue.Cdr[refA]
	vx.Assert("session A has a record", recA != nil && recA.ChargingFunctionRecord != nil)
	if recA == nil || recA.ChargingFunctionRecord == nil {
		return
	}
	cfr := recA.ChargingFunctionRecord
	vx.Assert("record carries the subscriber identity", cfr.SubscriberIdentifier != nil && string(cfr.SubscriberIdentifier.SubscriptionIDData) == zzSupi[5:])
	vx.Assert("record carries the session reference", cfr.ChargingSessionIdentifier != nil && string(cfr.ChargingSessionIdentifier.Value) == refA)
	vx.Assert("record carries the charging id", cfr.ChargingID != nil && cfr.ChargingID.Value == int64(reqA.ChargingId))
	name := cfr.NFunctionConsumerInformation.NetworkFunctionName
	vx.Assert("record carries the consumer name", (name == nil && reqA.NfConsumerIdentification.NFName == "") || (name != nil && string(name.Value) == reqA.NfConsumerIdentification.NFName))

	// an earlier update on either session, so that lists are not empty
	first, _ := zzUsageInd("first", rg, 1, 1)
	zzSmallUsage(&first)
	// (which session the earlier update and the step address is fixed per shard)
	shard, sharded := vx.Param("shard", 0), vx.Param("nshards", 1) == 4
	pick := func(label string, bit int) int {
		if sharded {
			return shard >> uint(bit) & 1
		}
		return vx.Choice(label, 2)
	}
	target0 := refA
	if pick("first.target", 0) == 1 {
		target0 = refB
	}
	c0 := &gin.Context{}
	p.HandleChargingdataUpdate(c0, models.ChfConvergedChargingChargingDataRequest{SubscriberIdentifier: zzSupi,
		MultipleUnitUsage: []models.ChfConvergedChargingMultipleUnitUsage{first}}, target0)
	vx.Assert("first update answered 200", vx.HTTPStatus(c0) == 200)

	oldA := zzUsageList(ue, refA)
	oldB := zzUsageList(ue, refB)

	// the step: update or release naming A or B
	var entries []models.ChfConvergedChargingMultipleUnitUsage
	for i := 0; i < vx.Param("entries", 1); i++ {
		u, _ := zzUsageInd("u"+string(rune('0'+i)), rg, vx.Param("containers", 1), 2)
		zzSmallUsage(&u)
		entries = append(entries, u)
	}
	req := models.ChfConvergedChargingChargingDataRequest{SubscriberIdentifier: zzSupi, MultipleUnitUsage: entries}
	target, other, oldT, oldO := refA, refB, oldA, oldB
	if pick("target", 1) == 1 {
		target, other, oldT, oldO = refB, refA, oldB, oldA
	}
	release := vx.Choice("op", 2) == 1
	c := &gin.Context{}
	if release {
		p.HandleChargingdataRelease(c, req, target)
		vx.Assert("release answered 204", vx.HTTPStatus(c) == 204)
	} else {
		p.HandleChargingdataUpdate(c, req, target)
		vx.Assert("update answered 200", vx.HTTPStatus(c) == 200)
	}
	newT := zzUsageList(ue, target)
	newO := zzUsageList(ue, other)
	vx.Assert("the named session's record gained exactly the reported entries", len(newT) == len(oldT)+len(entries))
	vx.Assert("the other session's record has the same number of entries", len(newO) == len(oldO))
	if len(newT) == len(oldT)+len(entries) {
		for i := range oldT {
			vx.Assert("entries already recorded are unchanged", vx.Equal(newT[i], oldT[i]))
		}
		for i, e := range entries {
			vx.Assert("reported usage recorded unchanged and in report order", zzSameUsage(newT[len(oldT)+i], e))
		}
	}
	if len(newO) == len(oldO) {
		for i := range oldO {
			vx.Assert("the other session's entries are unchanged", vx.Equal(newO[i], oldO[i]))
		}
	}
	if release {
		rec := ue.Cdr[target]
		vx.Assert("cause for closing is normal release", rec != nil && rec.ChargingFunctionRecord != nil && rec.ChargingFunctionRecord.CauseForRecClosing.Value == 0)
	}
}

// C02 across a record split: a session whose record fills up (usage entries
// made long through one variable-length member) is continued in a partial
// record; entries reported before, at and after the split are each recorded
// exactly once, unchanged and in report order over the session's records, and
// the closed record keeps its entries.
//
//gosx:property=C02 tier=quick unwind=40 timeout=30000 p.steps=4 p.steps.thorough=5
func ZZ_C02_AcrossSplit() {
	p := zzSetup()
	zzAccount(zzSupi, 1, 1000000, 10)
	ref, _ := zzCreate(p, "A", zzSupi)
	ue, found := chf_context.GetSelf().ChfUeFindBySupi(zzSupi)
	if !found {
		vx.Fail("subscriber context exists")
		return
	}
	sizes := []int{5, 30000, 45000, 5, 30000}[:vx.Param("steps", 4)]
	var reported []models.ChfConvergedChargingMultipleUnitUsage
	for i, sz := range sizes {
		u, _ := zzUsageInd("u"+string(rune('0'+i)), 1, 1, 1)
		zzSmallUsage(&u)
		// offline containers: the split logic is the subject, not credit control
		u.UsedUnitContainer[0].QuotaManagementIndicator = models.QuotaManagementIndicator_OFFLINE_CHARGING
		u.UPFID = zzLongString(sz)
		reported = append(reported, u)
		c := &gin.Context{}
		p.HandleChargingdataUpdate(c, models.ChfConvergedChargingChargingDataRequest{SubscriberIdentifier: zzSupi,
			MultipleUnitUsage: []models.ChfConvergedChargingMultipleUnitUsage{u}}, ref)
		vx.Assert("update answered 200", vx.HTTPStatus(c) == 200)
	}
	n := 0
	for _, r := range ue.Records {
		if r != nil && r.ChargingFunctionRecord != nil {
			n++
		}
	}
	vx.Assert("the history made the record split at least once", n >= 2)
	got := zzUsageList(ue, ref)
	vx.Assert("the session's records hold exactly the reported entries", len(got) == len(reported))
	if len(got) == len(reported) {
		for i := range reported {
			vx.Assert("each entry is recorded unchanged and in report order across the split", zzSameUsage(got[i], reported[i]))
			vx.Assert("each entry keeps its own variable-length member", got[i].UPFID != nil && len(got[i].UPFID.Value) == len(reported[i].UPFID))
		}
	}
}

// C02 after a partial record: a session whose record was closed as a partial
// record once (online usage reported with a non-FINAL trigger) and then goes
// on: a later update is recorded in the session's record, and the release
// closes it with cause "normal release" and records its usage too.
//
//gosx:property=C02 tier=quick unwind=40 timeout=30000
func ZZ_C02_ReleaseAfterPartialRecord() {
	p := zzSetup()
	zzAccount(zzSupi, 1, 1000000, 10)
	ref, _ := zzCreate(p, "A", zzSupi)
	ue, found := chf_context.GetSelf().ChfUeFindBySupi(zzSupi)
	if !found {
		vx.Fail("subscriber context exists")
		return
	}
	mk := func(l string, online bool) models.ChfConvergedChargingMultipleUnitUsage {
		u, _ := zzUsageInd(l, 1, 1, 1)
		zzSmallUsage(&u)
		if online {
			u.UsedUnitContainer[0].QuotaManagementIndicator = models.QuotaManagementIndicator_ONLINE_CHARGING
		}
		return u
	}
	u1 := mk("u1", true)
	c1 := &gin.Context{}
	p.HandleChargingdataUpdate(c1, models.ChfConvergedChargingChargingDataRequest{SubscriberIdentifier: zzSupi,
		MultipleUnitUsage: []models.ChfConvergedChargingMultipleUnitUsage{u1},
		Triggers:          []models.ChfConvergedChargingTrigger{zzTrigger("trigger.kind")}}, ref)
	vx.Assert("update answered 200", vx.HTTPStatus(c1) == 200)
	n1 := len(zzUsageList(ue, ref))
	u2 := mk("u2", vx.Choice("secondOnline", 2) == 1)
	c2 := &gin.Context{}
	if vx.Choice("then", 2) == 0 {
		p.HandleChargingdataUpdate(c2, models.ChfConvergedChargingChargingDataRequest{SubscriberIdentifier: zzSupi,
			MultipleUnitUsage: []models.ChfConvergedChargingMultipleUnitUsage{u2}}, ref)
		vx.Assert("second update answered 200", vx.HTTPStatus(c2) == 200)
	} else {
		p.HandleChargingdataRelease(c2, models.ChfConvergedChargingChargingDataRequest{SubscriberIdentifier: zzSupi,
			MultipleUnitUsage: []models.ChfConvergedChargingMultipleUnitUsage{u2}}, ref)
		vx.Assert("release answered 204", vx.HTTPStatus(c2) == 204)
		rec := ue.Cdr[ref]
		vx.Assert("cause for closing of a released session is normal release", rec != nil && rec.ChargingFunctionRecord != nil && rec.ChargingFunctionRecord.CauseForRecClosing.Value == 0)
	}
	got := zzUsageList(ue, ref)
	vx.Assert("the later report is recorded once in the session's record", len(got) == n1+1)
	if len(got) == n1+1 {
		vx.Assert("and unchanged", zzSameUsage(got[n1], u2))
	}
}
