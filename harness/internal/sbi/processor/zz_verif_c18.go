package processor

//gosx:file init=github.com/free5gc/chf/cdr/asn replay=engine

import (
	vx "github.com/free5gc/chf/zzvx"
	"github.com/free5gc/openapi/models"
)

// C18 inductive step: one online-charging request, with every outcome of the
// Diameter exchange (dial fails or succeeds, peer metadata missing, marshal or
// write fails, answer lost -> 5 s timeout, answer arrives). At request exit no
// connection opened during the request is both unclosed and unreachable from
// the subscriber/global state: a request that leaves one behind adds one TCP
// connection with its reader and watchdog tasks, i.e. unbounded growth over a
// history of requests. (Connections are ghost objects of the transport stub;
// real socket/goroutine counts are outside what is encoded.)
//
//gosx:property=C18 tier=quick unwind=40 timeout=30000
func ZZ_C18_NoConnectionLeftBehind() {
	zzSetup()
	zzAccount(zzSupi, 1, 1000000, 10)
	ue, _ := zzPreState(1)
	_ = ue
	vx.Config("diam.dialMayFail", true)
	vx.Config("diam.metaMayMiss", true)
	vx.Config("diam.marshalMayFail", true)
	vx.Config("diam.writeMayFail", true)
	vx.Config("diam.answerMayBeLost", true)
	vx.Config("diam.unmarshalMayFail", true) // a message that arrives but cannot be decoded (either side)
	u, _ := zzUsageInd("u0", 1, 1, 1)
	u.UsedUnitContainer[0].QuotaManagementIndicator = models.QuotaManagementIndicator_ONLINE_CHARGING
	zzSmallUsage(&u)
	req := models.ChfConvergedChargingChargingDataRequest{SubscriberIdentifier: zzSupi, MultipleUnitUsage: []models.ChfConvergedChargingMultipleUnitUsage{u}}
	sessionChargingReservation(req)
	vx.Assert("the request talked to its peers", vx.ConnsOpened() >= 0)
	vx.Assert("no connection opened by the request is left open and unreachable", vx.ConnsLeaked() == 0)
}

// C18 with slow peers: the same request under the scheduler, where goroutines
// started by the code under test are real threads and every timer may fire at
// any moment (a peer that is slow at any stage: connection set-up, answer).
// When the request is over and the tasks it started have run to completion,
// no connection is left open and unreachable.
//
//gosx:property=C18 tier=quick unwind=40 timeout=30000
func ZZ_C18_SlowPeers() {
	zzSetup()
	zzAccount(zzSupi, 1, 1000000, 10)
	ue, _ := zzPreState(1)
	_ = ue
	vx.Scheduler(2)
	vx.Config("sched.timersFire", true)
	vx.Config("diam.answerMayBeLost", true)
	u, _ := zzUsageInd("u0", 1, 1, 1)
	u.UsedUnitContainer[0].QuotaManagementIndicator = models.QuotaManagementIndicator_ONLINE_CHARGING
	zzSmallUsage(&u)
	req := models.ChfConvergedChargingChargingDataRequest{SubscriberIdentifier: zzSupi, MultipleUnitUsage: []models.ChfConvergedChargingMultipleUnitUsage{u}}
	sessionChargingReservation(req)
	vx.Quiesce()
	vx.Assert("no connection is left open and unreachable once the request and the tasks it started are over", vx.ConnsLeaked() == 0)
}
