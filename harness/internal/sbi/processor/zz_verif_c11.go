package processor

//gosx:file init=github.com/free5gc/chf/cdr/asn replay=engine

import (
	"strings"

	"github.com/gin-gonic/gin"

	vx "github.com/free5gc/chf/zzvx"
	"github.com/free5gc/openapi/models"
)

// zzNoPanic runs f and turns a panic into a finding (gin's recovery middleware
// would answer 500).
func zzNoPanic(name string, f func()) {
	defer func() {
		if r := recover(); r != nil {
			vx.Fail(name)
		}
	}()
	f()
}

// zzDigits: an MCC / MNC made of n decimal digits.
func zzDigits(l string, n int) string {
	s := vx.String(l, n)
	for i := 0; i < len(s); i++ {
		vx.Assume(s[i] >= '0')
		vx.Assume(s[i] <= '9')
	}
	return s
}

// zzAnyText: an MCC / MNC as it may arrive in a request - nothing before the
// conversion checks that it consists of digits. Each of the n bytes is of one
// of five classes (forked): a digit, a hexadecimal letter, another ASCII
// character, the lead byte of a two-byte character, a continuation byte.
func zzAnyText(l string, n int) string {
	b := make([]byte, n)
	for i := range b {
		switch vx.Choice(l+".class", 5) {
		case 0:
			d := vx.Byte(l + ".digit")
			vx.Assume(d >= '0' && d <= '9')
			b[i] = d
		case 1:
			b[i] = 'f'
		case 2:
			b[i] = 'z'
		case 3:
			b[i] = 0xC3
		default:
			b[i] = 0xA9
		}
	}
	return string(b)
}

// zzArbitraryRequest: a body that parses into a charging data request. The
// request deviates from a well-formed baseline in ONE member group per path
// (every variant of that group is enumerated); in the thorough tier in two
// groups. Groups: consumer identification, PLMN id shape, PDU session
// information nesting, registration information, usage entry shape, trigger,
// one-time event.
const zzGroups = 7

type zzDev struct{ a, b int }

func (d zzDev) on(g int) bool { return d.a == g || d.b == g }

func zzPickDev(l string) zzDev {
	d := zzDev{a: vx.Choice(l+".dev", zzGroups+1) - 1, b: -1} // -1: baseline only
	if vx.Param("pairs", 0) == 1 && d.a >= 0 {
		d.b = d.a + 1 + vx.Choice(l+".dev2", zzGroups-d.a) // a < b <= zzGroups (== zzGroups: none)
	}
	return d
}

func zzArbitraryRequest(l string, supi string) models.ChfConvergedChargingChargingDataRequest {
	d := zzPickDev(l)
	r := models.ChfConvergedChargingChargingDataRequest{SubscriberIdentifier: supi, NotifyUri: "http://smf.example/n"}
	small := func(s string) int32 {
		v := vx.Int32(l + s)
		vx.Assume(v >= 0)
		vx.Assume(v <= 127)
		return v
	}
	r.ChargingId = small(".chargingId")
	r.InvocationSequenceNumber = vx.Int32(l + ".seq")
	if d.on(6) {
		r.OneTimeEvent = true
	}
	// group 0: consumer identification absent
	if !d.on(0) {
		id := &models.ChfConvergedChargingNfIdentification{NFName: vx.String(l+".nfname", 1), NodeFunctionality: "SMF"}
		// group 1: PLMN id present with MCC/MNC of 0..3 digits
		if d.on(1) {
			switch vx.Choice(l+".plmnshape", vx.Param("plmnshapes", 3)) {
			case 0: // digits, 0..3 each
				id.NFPLMNID = &models.PlmnId{Mcc: zzDigits(l+".mcc", vx.Choice(l+".mcclen", 4)), Mnc: zzDigits(l+".mnc", vx.Choice(l+".mnclen", 4))}
			case 1: // arbitrary text of 0..3 bytes as MNC
				id.NFPLMNID = &models.PlmnId{Mcc: zzDigits(l+".mcc", 3), Mnc: zzAnyText(l+".mnc", vx.Choice(l+".mnclen", 4))}
			default: // arbitrary text of 0..3 bytes as MCC
				id.NFPLMNID = &models.PlmnId{Mcc: zzAnyText(l+".mcc", vx.Choice(l+".mcclen", 4)), Mnc: zzDigits(l+".mnc", 2+vx.Choice(l+".mnclen", 2))}
			}
		}
		r.NfConsumerIdentification = id
	}
	// group 2: PDU session charging information, nested members cut at each level
	if d.on(2) {
		depth := vx.Choice(l+".pdudepth", 4)
		pdu := &models.ChfConvergedChargingPduSessionChargingInformation{ChargingId: small(".pduChargingId")}
		if depth >= 1 {
			pi := &models.ChfConvergedChargingPduSessionInformation{PduSessionID: small(".pduId"), DnnId: "internet"}
			if depth >= 2 {
				pi.NetworkSlicingInfo = &models.NetworkSlicingInfo{}
				if depth >= 3 {
					pi.NetworkSlicingInfo.SNSSAI = &models.Snssai{Sst: small(".sst"), Sd: "010203"}
				}
			}
			pdu.PduSessionInformation = pi
		}
		r.PDUSessionChargingInformation = pdu
	}
	// group 3: registration charging information present
	if d.on(3) {
		r.RegistrationChargingInformation = &models.RegistrationChargingInformation{}
	}
	// group 4: usage entry shapes (baseline: no usage)
	if d.on(4) {
		u := models.ChfConvergedChargingMultipleUnitUsage{RatingGroup: 1, UPFID: "upf"}
		if vx.Choice(l+".requestedUnit", 2) == 1 {
			u.RequestedUnit = &models.RequestedUnit{TotalVolume: small(".requested")}
		}
		if vx.Choice(l+".container", 2) == 1 {
			u.UsedUnitContainer = []models.ChfConvergedChargingUsedUnitContainer{{QuotaManagementIndicator: zzIndicator(l + ".indicator"), TotalVolume: small(".used")}}
		}
		r.MultipleUnitUsage = []models.ChfConvergedChargingMultipleUnitUsage{u}
	}
	// group 5: a trigger
	if d.on(5) {
		r.Triggers = []models.ChfConvergedChargingTrigger{zzTrigger(l + ".trigger.kind")}
	}
	return r
}

func zzOddSupi(l string) string {
	return []string{zzSupi, "imsi-", "imsi", "", "nai-user@realm", "gci-1", "gli-2", "supi/../x", "imsi-1/2"}[vx.Choice(l, 9)]
}

func zzFollowUp(p *Processor, supi string) {
	// a subsequent well-formed request for the same subscriber is answered
	if !strings.HasPrefix(supi, "imsi-") {
		supi = zzSupi
	}
	c := &gin.Context{}
	p.HandleChargingdataInitial(c, zzCreateReq("followup", supi))
	vx.Assert("follow-up request answered 201", vx.HTTPStatus(c) == 201)
}

// C11 (create): no body makes the create handler panic, answer 5xx or leave
// the subscriber locked.
//
//gosx:property=C11 tier=quick unwind=40 timeout=30000 p.pairs.thorough=1
func ZZ_C11_Create() {
	p := zzSetup()
	zzAccount(zzSupi, 1, 1000000, 10)
	req := zzArbitraryRequest("r", zzOddSupi("supi"))
	c := &gin.Context{}
	zzNoPanic("create handler panicked", func() { p.HandleChargingdataInitial(c, req) })
	vx.Assert("no lock left held after create", vx.LocksHeld() == 0)
	vx.Assert("create answered 2xx or 4xx", zzStatus2xx(c) || zzStatus4xx(c))
	if vx.LocksHeld() == 0 {
		zzFollowUp(p, req.SubscriberIdentifier)
	}
}

// C11 (update / release): the same for requests on a live session.
//
//gosx:property=C11 tier=quick unwind=40 timeout=30000 p.pairs.thorough=1 p.plmnshapes=1
func ZZ_C11_UpdateRelease() {
	p := zzSetup()
	zzAccount(zzSupi, 1, 1000000, 10)
	c0 := &gin.Context{}
	p.HandleChargingdataInitial(c0, zzCreateReq("create", zzSupi))
	loc := vx.HTTPHeader(c0, "Location")
	vx.Assume(strings.HasPrefix(loc, zzRefPrefix))
	ref := loc[len(zzRefPrefix):]
	if vx.Choice("ref", 2) == 1 {
		ref = vx.String("badref", 2)
	}
	req := zzArbitraryRequest("r", zzOddSupi("supi"))
	c := &gin.Context{}
	if vx.Choice("op", 2) == 0 {
		zzNoPanic("update handler panicked", func() { p.HandleChargingdataUpdate(c, req, ref) })
	} else {
		zzNoPanic("release handler panicked", func() { p.HandleChargingdataRelease(c, req, ref) })
	}
	vx.Assert("no lock left held", vx.LocksHeld() == 0)
	vx.Assert("answered 2xx or 4xx", zzStatus2xx(c) || zzStatus4xx(c))
	if vx.LocksHeld() == 0 {
		zzFollowUp(p, zzSupi)
	}
}

// C11 (recharge): a recharge notification for any rating group (used or not
// yet used by the subscriber) or for an unknown subscriber leaves no lock
// held, and the subscriber's next requests are answered.
//
//gosx:property=C11 tier=quick unwind=40 timeout=30000
func ZZ_C11_RechargeThenRequest() {
	p := zzSetup()
	zzAccount(zzSupi, 1, 1000000, 10)
	c0 := &gin.Context{}
	create := zzCreateReq("create", zzSupi)
	if vx.Choice("noNotifyUri", 2) == 1 {
		create.NotifyUri = "" // the member is optional
	}
	p.HandleChargingdataInitial(c0, create)
	loc := vx.HTTPHeader(c0, "Location")
	vx.Assume(strings.HasPrefix(loc, zzRefPrefix))
	ref := loc[len(zzRefPrefix):]
	if vx.Choice("usedBefore", 2) == 1 {
		u, _ := zzUsageInd("u0", 1, 1, 2)
		zzSmallUsage(&u)
		c := &gin.Context{}
		p.HandleChargingdataUpdate(c, models.ChfConvergedChargingChargingDataRequest{SubscriberIdentifier: zzSupi,
			MultipleUnitUsage: []models.ChfConvergedChargingMultipleUnitUsage{u}}, ref)
	}
	supi := []string{zzSupi, zzSupi2}[vx.Choice("who", 2)]
	zzNoPanic("recharge notification panicked", func() { p.NotifyRecharge(supi, vx.Int32("rg")) })
	vx.Assert("no lock left held after the recharge notification", vx.LocksHeld() == 0)
	if vx.LocksHeld() == 0 {
		c := &gin.Context{}
		p.HandleChargingdataRelease(c, models.ChfConvergedChargingChargingDataRequest{SubscriberIdentifier: zzSupi}, ref)
		vx.Assert("release after the recharge answered 204", vx.HTTPStatus(c) == 204)
	}
}

// C11 (large records): a session whose record outgrows 65535 octets - over two
// updates or with one very large report, with or without an earlier partial
// record (update carrying a non-FINAL trigger) - is answered without a panic,
// no lock is left held and the next update is answered.
//
//gosx:property=C11 tier=quick unwind=40 timeout=30000
func ZZ_C11_RecordSplit() {
	p := zzSetup()
	zzAccount(zzSupi, 1, 1000000, 10)
	c0 := &gin.Context{}
	p.HandleChargingdataInitial(c0, zzCreateReq("create", zzSupi))
	loc := vx.HTTPHeader(c0, "Location")
	vx.Assume(strings.HasPrefix(loc, zzRefPrefix))
	ref := loc[len(zzRefPrefix):]
	// (a) offline usage growing over two updates; (b) one very large online
	// report together with a non-FINAL trigger (split and partial record in
	// one request); (c) online reports with a trigger, growing over two updates
	scenario := vx.Choice("scenario", 3)
	sizes := [][]int{{30000, 45000, 5}, {70000, 5}, {30000, 45000}}[scenario]
	for i, sz := range sizes {
		u, _ := zzUsageInd("u"+string(rune('0'+i)), 1, 1, 1)
		zzSmallUsage(&u)
		u.UPFID = zzLongString(sz)
		req := models.ChfConvergedChargingChargingDataRequest{SubscriberIdentifier: zzSupi,
			MultipleUnitUsage: []models.ChfConvergedChargingMultipleUnitUsage{u}}
		if scenario > 0 {
			u.UsedUnitContainer[0].QuotaManagementIndicator = models.QuotaManagementIndicator_ONLINE_CHARGING
			if i == 0 || scenario == 2 {
				req.Triggers = []models.ChfConvergedChargingTrigger{{TriggerType: models.ChfConvergedChargingTriggerType_VOLUME_LIMIT, TriggerCategory: models.TriggerCategory_IMMEDIATE_REPORT}}
			}
		}
		c := &gin.Context{}
		zzNoPanic("update handler panicked", func() { p.HandleChargingdataUpdate(c, req, ref) })
		vx.Assert("update answered 2xx or 4xx", zzStatus2xx(c) || zzStatus4xx(c))
		vx.Assert("no lock left held", vx.LocksHeld() == 0)
		if vx.LocksHeld() != 0 {
			return
		}
	}
}

// C11 (sessions and one-time events mixed): a subscriber has a session and a
// one-time event (in either order) - the event's record carries no session
// identifier - and then the session is updated and released: no panic, 2xx/4xx.
//
//gosx:property=C11 tier=quick unwind=40 timeout=30000
func ZZ_C11_OneTimeEventAndSession() {
	p := zzSetup()
	zzAccount(zzSupi, 1, 1000000, 10)
	event := zzCreateReq("event", zzSupi)
	event.OneTimeEvent = true
	eventFirst := vx.Choice("eventFirst", 2) == 1
	if eventFirst {
		c := &gin.Context{}
		zzNoPanic("one-time event create panicked", func() { p.HandleChargingdataInitial(c, event) })
		vx.Assert("one-time event answered 2xx or 4xx", zzStatus2xx(c) || zzStatus4xx(c))
	}
	c0 := &gin.Context{}
	p.HandleChargingdataInitial(c0, zzCreateReq("create", zzSupi))
	loc := vx.HTTPHeader(c0, "Location")
	vx.Assume(strings.HasPrefix(loc, zzRefPrefix))
	ref := loc[len(zzRefPrefix):]
	if !eventFirst {
		c := &gin.Context{}
		zzNoPanic("one-time event create panicked", func() { p.HandleChargingdataInitial(c, event) })
		vx.Assert("one-time event answered 2xx or 4xx", zzStatus2xx(c) || zzStatus4xx(c))
	}
	u, _ := zzUsageInd("u0", 1, 1, 2)
	zzSmallUsage(&u)
	req := models.ChfConvergedChargingChargingDataRequest{SubscriberIdentifier: zzSupi,
		MultipleUnitUsage: []models.ChfConvergedChargingMultipleUnitUsage{u}}
	c1 := &gin.Context{}
	zzNoPanic("update handler panicked", func() { p.HandleChargingdataUpdate(c1, req, ref) })
	vx.Assert("update answered 2xx or 4xx", zzStatus2xx(c1) || zzStatus4xx(c1))
	c2 := &gin.Context{}
	zzNoPanic("release handler panicked", func() { p.HandleChargingdataRelease(c2, req, ref) })
	vx.Assert("release answered 2xx or 4xx", zzStatus2xx(c2) || zzStatus4xx(c2))
	vx.Assert("no lock left held", vx.LocksHeld() == 0)
}

// C11 (unusual subscriber identifiers through a whole session): the SUPI is
// used to build the name of the subscriber's CDR file. A session created for
// an identifier with path separators or other unusual shapes is then updated
// and released: no panic, 2xx/4xx, no lock left held.
//
//gosx:property=C11 tier=quick unwind=40 timeout=30000
func ZZ_C11_OddSubscriberIds() {
	p := zzSetup()
	supi := []string{"imsi-1/2", "imsi-208930000000001/../x", "nai-user@realm", "imsi-20893 0001", "imsi-..", "imsi-" + zzLongString(300)}[vx.Choice("supi", 6)]
	if strings.HasPrefix(supi, "imsi-") {
		zzAccount(supi, 1, 1000000, 10)
	}
	c0 := &gin.Context{}
	zzNoPanic("create handler panicked", func() { p.HandleChargingdataInitial(c0, zzCreateReq("create", supi)) })
	vx.Assert("create answered 2xx or 4xx", zzStatus2xx(c0) || zzStatus4xx(c0))
	loc := vx.HTTPHeader(c0, "Location")
	if vx.HTTPStatus(c0) != 201 || !strings.HasPrefix(loc, zzRefPrefix) {
		return
	}
	ref := loc[len(zzRefPrefix):]
	u, _ := zzUsageInd("u0", 1, 1, 2)
	zzSmallUsage(&u)
	req := models.ChfConvergedChargingChargingDataRequest{SubscriberIdentifier: supi,
		MultipleUnitUsage: []models.ChfConvergedChargingMultipleUnitUsage{u}}
	c1 := &gin.Context{}
	zzNoPanic("update handler panicked", func() { p.HandleChargingdataUpdate(c1, req, ref) })
	vx.Assert("update answered 2xx or 4xx", zzStatus2xx(c1) || zzStatus4xx(c1))
	c2 := &gin.Context{}
	zzNoPanic("release handler panicked", func() { p.HandleChargingdataRelease(c2, req, ref) })
	vx.Assert("release answered 2xx or 4xx", zzStatus2xx(c2) || zzStatus4xx(c2))
	vx.Assert("no lock left held", vx.LocksHeld() == 0)
}
