package processor

//gosx:file init=github.com/free5gc/chf/cdr/asn replay=engine

import (
	"os"

	"github.com/gin-gonic/gin"

	"github.com/free5gc/chf/cdr/asn"
	"github.com/free5gc/chf/cdr/cdrConvert"
	chf_context "github.com/free5gc/chf/internal/context"
	"github.com/free5gc/chf/zzref"
	vx "github.com/free5gc/chf/zzvx"
	"github.com/free5gc/openapi/models"
)

func zzBE32(d []byte, o int) int {
	return int(d[o])<<24 | int(d[o+1])<<16 | int(d[o+2])<<8 | int(d[o+3])
}

// zzCheckCdrFile parses the subscriber's CDR file as TS 32.297 lays it out
// (independent of package cdrFile) and asserts that it is well-formed.
func zzCheckCdrFile(what string) {
	d, err := os.ReadFile("/tmp/" + zzSupi + ".cdr")
	vx.Assert(what+": a CDR file was written", err == nil)
	if err != nil {
		return
	}
	vx.Assert(what+": file has a complete header", len(d) >= 52)
	if len(d) < 52 {
		return
	}
	hdrLen := zzBE32(d, 4)
	n := zzBE32(d, 18)
	filterLen := int(d[48])<<8 | int(d[49])
	extLen := 0
	if 50+filterLen+2 <= len(d) {
		extLen = int(d[50+filterLen])<<8 | int(d[51+filterLen])
	}
	realHdr := 52 + filterLen + extLen
	if d[8]>>5 == 7 {
		realHdr++
	}
	if d[9]>>5 == 7 {
		realHdr++
	}
	vx.Assert(what+": file-length field equals the file size", zzBE32(d, 0) == len(d))
	vx.Assert(what+": header-length field equals the header size", hdrLen == realHdr)
	p := realHdr
	count := 0
	ok := true
	for count < n && ok {
		if p+4 > len(d) {
			ok = false
			break
		}
		l := int(d[p])<<8 | int(d[p+1])
		h := 4
		if d[p+2]>>5 == 7 {
			h = 5
		}
		if p+h+l > len(d) {
			ok = false
			break
		}
		payload := d[p+h : p+h+l]
		vx.Assert(what+": record payload is one complete BER element", zzref.WellFormed(payload))
		p += h + l
		count++
	}
	vx.Assert(what+": every record header's length field fits the file", ok)
	vx.Assert(what+": CDR count equals the number of records present and the file ends after the last", ok && count == n && p == len(d))
}

func zzLongString(n int) string {
	b := make([]byte, n)
	for i := range b {
		b[i] = 'u'
	}
	return string(b)
}

// C03: however much usage a session accumulates or a request carries, every
// CDR file written is well-formed and no record exceeds 65535 octets. Record
// growth is driven by one member of variable length (the UPF id of a usage
// entry): sizes are additive, so one long member stands for "much usage".
//
//gosx:property=C03 tier=quick unwind=40 timeout=30000
func ZZ_C03_Files() {
	p := zzSetup()
	zzAccount(zzSupi, 1, 1000000, 10)
	ref, _ := zzCreate(p, "A", zzSupi)

	mkReq := func(l string, upfLen int) models.ChfConvergedChargingChargingDataRequest {
		u, _ := zzUsageInd(l, 1, 1, 1)
		zzSmallUsage(&u)
		u.UPFID = zzLongString(upfLen)
		return models.ChfConvergedChargingChargingDataRequest{SubscriberIdentifier: zzSupi, MultipleUnitUsage: []models.ChfConvergedChargingMultipleUnitUsage{u}}
	}
	// first update: brings the record to a small size or close to the limit
	l1 := []int{5, 65000, 65400}[vx.Choice("size1", 3)]
	c1 := &gin.Context{}
	p.HandleChargingdataUpdate(c1, mkReq("first", l1), ref)
	vx.Assert("first update answered 200", vx.HTTPStatus(c1) == 200)
	zzCheckCdrFile("after first update")

	// second operation adds a small, a medium or an over-long entry
	l2 := []int{5, 600, 70000}[vx.Choice("size2", 3)]
	c2 := &gin.Context{}
	op := vx.Choice("op", 2)
	vx.Tag("size1", int64(l1))
	vx.Tag("size2", int64(l2))
	vx.Tag("op", int64(op))
	if op == 0 {
		p.HandleChargingdataUpdate(c2, mkReq("second", l2), ref)
		vx.Assert("second update answered 2xx or 4xx", zzStatus2xx(c2) || zzStatus4xx(c2))
		zzCheckCdrFile("after second update")
	} else {
		p.HandleChargingdataRelease(c2, mkReq("second", l2), ref)
		vx.Assert("release answered 2xx or 4xx", zzStatus2xx(c2) || zzStatus4xx(c2))
		zzCheckCdrFile("after release")
	}
}

// Known-finding regions.

// A single request whose own usage encodes to more than 65535 octets: the
// split only moves it into a fresh record, which is then too large itself.
func ZZ_C03_regionOversizedRequest(size2 int64) bool { return size2 > 65535 }

// A release adds its usage to the session's record without any size check.
func ZZ_C03_regionReleaseOverflow(op, size1, size2 int64) bool {
	return op == 1 && size1+size2 > 65000
}

// C03, longer histories: up to four updates of one session with report sizes
// from {small, 20000, 30000, 45000} octets in every order (records fill up,
// split, and the partial record fills up again), each followed by the file
// check. Thorough tier: 4 steps; quick tier: 3 steps over {small, 30000, 45000}.
//
//gosx:property=C03 tier=quick unwind=40 timeout=30000 shards=4 p.steps=3 p.steps.thorough=4 p.sizes=3 p.sizes.thorough=4 maxseconds.thorough=3000
func ZZ_C03_History() {
	p := zzSetup()
	zzAccount(zzSupi, 1, 1000000, 10)
	ref, _ := zzCreate(p, "A", zzSupi)
	sizes := []int{45000, 30000, 5, 20000}[:vx.Param("sizes", 3)]
	total := 0
	for i := 0; i < vx.Param("steps", 3); i++ {
		var k int
		if i == 0 && vx.Param("nshards", 1) > 1 {
			k = vx.Param("shard", 0) % len(sizes) // first size per shard
		} else {
			k = vx.Choice("size", len(sizes))
		}
		u, _ := zzUsageInd("u", 1, 1, 1)
		zzSmallUsage(&u)
		u.UPFID = zzLongString(sizes[k])
		total += sizes[k]
		c := &gin.Context{}
		p.HandleChargingdataUpdate(c, models.ChfConvergedChargingChargingDataRequest{SubscriberIdentifier: zzSupi,
			MultipleUnitUsage: []models.ChfConvergedChargingMultipleUnitUsage{u}}, ref)
		vx.Assert("update answered 200", vx.HTTPStatus(c) == 200)
		zzCheckCdrFile("after update in a longer history")
	}
}

// C03 at the split boundary: a session's record is filled up to R octets and
// a small report of s octets follows, for every total R + s in a window around
// 65535 (the split decision adds exactly these two numbers). The harness
// measures the encodings with the real encoder (lengths are concrete) and
// picks the length of one variable-length member so that the total lands on
// each value of the window; after the small report the file must be
// well-formed. Quick: totals 65530..65541; thorough: 65500..65560.
//
//gosx:property=C03 tier=quick unwind=40 timeout=30000 shards=4 p.lo=65530 p.n=12 p.lo.thorough=65500 p.n.thorough=61 maxseconds.thorough=3000
func ZZ_C03_SplitBoundary() {
	p := zzSetup()
	zzAccount(zzSupi, 1, 1000000, 10)
	ref, _ := zzCreate(p, "A", zzSupi)
	ue, found := chf_context.GetSelf().ChfUeFindBySupi(zzSupi)
	if !found {
		vx.Fail("subscriber context exists")
		return
	}
	size := func() int {
		rec := ue.Cdr[ref]
		b, err := asn.BerMarshalWithParams(&rec, "explicit,choice")
		if err != nil {
			vx.Fail("record encodes")
		}
		return len(b)
	}
	offline := func(l string, n int) models.ChfConvergedChargingMultipleUnitUsage {
		u, _ := zzUsageInd(l, 1, 1, 1)
		zzSmallUsage(&u)
		u.UsedUnitContainer[0].QuotaManagementIndicator = models.QuotaManagementIndicator_OFFLINE_CHARGING
		u.UPFID = zzLongString(n)
		return u
	}
	send := func(u models.ChfConvergedChargingMultipleUnitUsage) {
		c := &gin.Context{}
		p.HandleChargingdataUpdate(c, models.ChfConvergedChargingChargingDataRequest{SubscriberIdentifier: zzSupi,
			MultipleUnitUsage: []models.ChfConvergedChargingMultipleUnitUsage{u}}, ref)
		vx.Assert("update answered 200", vx.HTTPStatus(c) == 200)
	}
	send(offline("u1", 30000))
	r1 := size()
	send(offline("u2", 1000))
	r2 := size()
	perEntry := r2 - r1 - 1000 // octets an entry adds beyond its long member
	small := offline("u4", 3)
	list := cdrConvert.MultiUnitUsageToCdr([]models.ChfConvergedChargingMultipleUnitUsage{small})
	sb, err := asn.BerMarshalWithParams(&list, "explicit,choice")
	if err != nil {
		vx.Fail("usage list encodes")
		return
	}
	lo, n := vx.Param("lo", 65530), vx.Param("n", 12)
	nsh, sh := vx.Param("nshards", 1), vx.Param("shard", 0)
	k := vx.Choice("total", (n+nsh-1)/nsh)*nsh + sh
	if k >= n {
		return
	}
	total := lo + k
	l3 := total - len(sb) - r2 - perEntry
	if l3 < 256 || len(ue.Records) != 1 {
		vx.Fail("calibration: the filling report keeps a long member and no split happened yet")
		return
	}
	send(offline("u3", l3))
	vx.Assume(len(ue.Records) == 1 && size()+len(sb) == total) // the record is filled as planned
	send(small)
	zzCheckCdrFile("after a small report to an almost full record")
}

// C03 when the file shrinks: two sessions of one subscriber are updated (the
// file holds both records), then one is released or updated with a partial
// record trigger - operations after which the CHF writes fewer or shorter
// records to the same path; after every write the file is well-formed (in
// particular it ends after the last record it announces).
//
//gosx:property=C03 tier=quick unwind=40 timeout=30000
func ZZ_C03_ShrinkingRewrite() {
	p := zzSetup()
	zzAccount(zzSupi, 1, 1000000, 10)
	refA, _ := zzCreate(p, "A", zzSupi)
	refB, _ := zzCreate(p, "B", zzSupi)
	mk := func(l string, n int) models.ChfConvergedChargingChargingDataRequest {
		u, _ := zzUsageInd(l, 1, 1, 1)
		zzSmallUsage(&u)
		u.UsedUnitContainer[0].QuotaManagementIndicator = models.QuotaManagementIndicator_OFFLINE_CHARGING
		u.UPFID = zzLongString(n)
		return models.ChfConvergedChargingChargingDataRequest{SubscriberIdentifier: zzSupi,
			MultipleUnitUsage: []models.ChfConvergedChargingMultipleUnitUsage{u}}
	}
	c1, c2 := &gin.Context{}, &gin.Context{}
	p.HandleChargingdataUpdate(c1, mk("a", 300), refA)
	p.HandleChargingdataUpdate(c2, mk("b", 300), refB)
	vx.Assert("updates answered 200", vx.HTTPStatus(c1) == 200 && vx.HTTPStatus(c2) == 200)
	zzCheckCdrFile("after updates of two sessions")
	c3 := &gin.Context{}
	switch vx.Choice("then", 3) {
	case 0:
		p.HandleChargingdataRelease(c3, mk("r", 5), refA)
		vx.Assert("release answered 204", vx.HTTPStatus(c3) == 204)
	case 1:
		p.HandleChargingdataRelease(c3, mk("r", 5), refB)
		vx.Assert("release answered 204", vx.HTTPStatus(c3) == 204)
	default:
		p.HandleChargingdataUpdate(c3, mk("u", 5), refA)
		vx.Assert("update answered 200", vx.HTTPStatus(c3) == 200)
	}
	zzCheckCdrFile("after an operation that writes a shorter file")
}
