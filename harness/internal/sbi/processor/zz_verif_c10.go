package processor

//gosx:file init=github.com/free5gc/chf/cdr/asn replay=engine

import (
	"github.com/gin-gonic/gin"

	chf_context "github.com/free5gc/chf/internal/context"
	vx "github.com/free5gc/chf/zzvx"
	"github.com/free5gc/openapi/models"
)

// C10: two successful creates - any consumer names (any bytes, digits and
// empty included), same or different subscriber (one SUPI may be a prefix of
// the other), any number of other creates in between (counter gap) - return
// different session references, and an update addressed to the first
// reference still acts on the record the first create opened.
//
//gosx:property=C10 tier=quick unwind=40 timeout=30000 p.namelen=2 p.namelen.thorough=3
func ZZ_C10_UniqueReferences() {
	p := zzSetup()
	self := chf_context.GetSelf()
	n0 := vx.Uint64("counter0")
	vx.Assume(n0 < 10000)
	self.LocalRecordSequenceNumber = n0
	zzAccount(zzSupi, 1, 1000000, 10)

	supi1 := zzSupi
	supi2 := []string{zzSupi, zzSupi + "1", "imsi-20893000000000"}[vx.Choice("supi2", 3)]
	name1 := vx.String("name1", vx.Choice("len1", vx.Param("namelen", 2)+1))
	name2 := vx.String("name2", vx.Choice("len2", vx.Param("namelen", 2)+1))

	mk := func(l, supi, name string) models.ChfConvergedChargingChargingDataRequest {
		r := zzCreateReq(l, supi)
		r.NfConsumerIdentification.NFName = name
		return r
	}
	c1 := &gin.Context{}
	r1 := mk("A", supi1, name1)
	p.HandleChargingdataInitial(c1, r1)
	vx.Assert("first create answered 201", vx.HTTPStatus(c1) == 201)
	loc1 := vx.HTTPHeader(c1, "Location")

	// other subscribers' creates in between advance the global counter
	gap := vx.Uint64("gap")
	vx.Assume(gap < 10000)
	self.LocalRecordSequenceNumber += gap

	c2 := &gin.Context{}
	p.HandleChargingdataInitial(c2, mk("B", supi2, name2))
	vx.Assert("second create answered 201", vx.HTTPStatus(c2) == 201)
	loc2 := vx.HTTPHeader(c2, "Location")
	vx.Assert("the two session references differ", loc1 != loc2)

	// the first reference still designates the first session
	if len(loc1) > len(zzRefPrefix) && loc1 != loc2 {
		ref1 := loc1[len(zzRefPrefix):]
		ue, ok := self.ChfUeFindBySupi(supi1)
		vx.Assert("first subscriber known", ok)
		if ok {
			rec := ue.Cdr[ref1]
			vx.Assert("first reference designates a record", rec != nil && rec.ChargingFunctionRecord != nil && rec.ChargingFunctionRecord.ChargingID != nil)
			if rec != nil && rec.ChargingFunctionRecord != nil && rec.ChargingFunctionRecord.ChargingID != nil {
				vx.Assert("it is the record the first create opened", rec.ChargingFunctionRecord.ChargingID.Value == int64(r1.ChargingId))
			}
			// ... and an update addressed to it acts on that record and on no other
			// (both sessions are still open; the second reference may extend the
			// first as a string when both belong to one subscriber)
			if supi1 == supi2 && len(loc2) > len(zzRefPrefix) {
				ref2 := loc2[len(zzRefPrefix):]
				before1, before2 := len(zzUsageList(ue, ref1)), len(zzUsageList(ue, ref2))
				u, _ := zzUsageInd("upd", 1, 1, 1)
				zzSmallUsage(&u)
				c3 := &gin.Context{}
				p.HandleChargingdataUpdate(c3, models.ChfConvergedChargingChargingDataRequest{SubscriberIdentifier: supi1,
					MultipleUnitUsage: []models.ChfConvergedChargingMultipleUnitUsage{u}}, ref1)
				vx.Assert("update addressed to the first reference answered 200", vx.HTTPStatus(c3) == 200)
				vx.Assert("the update acts on the record of the session it addresses", len(zzUsageList(ue, ref1)) == before1+1)
				vx.Assert("and on no other session's record", len(zzUsageList(ue, ref2)) == before2)
				// ... and so does a release addressed to it (the two sessions may
				// well carry the same consumer-chosen charging id)
				r, _ := zzUsageInd("rel", 1, 1, 1)
				zzSmallUsage(&r)
				c4 := &gin.Context{}
				p.HandleChargingdataRelease(c4, models.ChfConvergedChargingChargingDataRequest{SubscriberIdentifier: supi1,
					MultipleUnitUsage: []models.ChfConvergedChargingMultipleUnitUsage{r}}, ref1)
				vx.Assert("release addressed to the first reference answered 204", vx.HTTPStatus(c4) == 204)
				vx.Assert("the release acts on the record of the session it addresses", len(zzUsageList(ue, ref1)) == before1+2)
				vx.Assert("and leaves the other session's record alone", len(zzUsageList(ue, ref2)) == before2)
			}
		}
	}
}

// C10, "whatever the timing": two creates in flight together - for the same
// subscriber (known or new) or for two subscribers, with the same consumer
// name so that the references can only differ by the counter - under every
// interleaving at scheduling-point granularity (bounded switches) return
// different references, and each reference designates the record its own
// create opened.
//
//gosx:property=C10 tier=quick unwind=40 timeout=30000 p.preempt=3 p.preempt.thorough=5
func ZZ_C10_UniqueUnderConcurrency() {
	p := zzSetup()
	self := chf_context.GetSelf()
	supiA, supiB := zzSupi, zzSupi
	switch vx.Choice("scenario", 3) {
	case 0:
		zzCreate(p, "warmup", zzSupi)
	case 1:
	default:
		supiB = zzSupi2
	}
	reqA := zzCreateReq("A", supiA)
	reqB := zzCreateReq("B", supiB)
	reqB.NfConsumerIdentification.NFName = reqA.NfConsumerIdentification.NFName
	vx.Assume(reqA.ChargingId != reqB.ChargingId) // tells the two records apart
	cA, cB := &gin.Context{}, &gin.Context{}
	vx.Parallel(
		func() { p.HandleChargingdataInitial(cA, reqA) },
		func() { p.HandleChargingdataInitial(cB, reqB) },
	)
	vx.Assert("both creates answered 201", vx.HTTPStatus(cA) == 201 && vx.HTTPStatus(cB) == 201)
	locA, locB := vx.HTTPHeader(cA, "Location"), vx.HTTPHeader(cB, "Location")
	vx.Assert("creates in flight together return different session references", locA != locB)
	for i, loc := range []string{locA, locB} {
		supi, req := supiA, reqA
		if i == 1 {
			supi, req = supiB, reqB
		}
		if len(loc) <= len(zzRefPrefix) {
			continue
		}
		ue, ok := self.ChfUeFindBySupi(supi)
		if !ok {
			vx.Fail("subscriber of an acknowledged session is in the pool")
			continue
		}
		rec := ue.Cdr[loc[len(zzRefPrefix):]]
		ok = rec != nil && rec.ChargingFunctionRecord != nil && rec.ChargingFunctionRecord.ChargingID != nil
		vx.Assert("each reference designates a record", ok)
		if ok {
			vx.Assert("each reference designates the record its own create opened", rec.ChargingFunctionRecord.ChargingID.Value == int64(req.ChargingId))
		}
	}
}

// C10 over the whole range of the record counter: a session is created when
// the process-wide counter has ANY value; other subscribers' creates then
// move the counter on by any amount (modelled as a jump to any larger value
// followed by one real create of another subscriber, so that whatever the
// increment does at a boundary happens); a second session of the first
// subscriber with the same consumer name gets a different reference, and
// the first reference still designates the first session's record.
//
//gosx:property=C10 tier=quick unwind=40 timeout=30000
func ZZ_C10_UniqueOverTheCounterRange() {
	p := zzSetup()
	self := chf_context.GetSelf()
	c0 := vx.Uint64("counter0")
	vx.Assume(c0 < 1<<62)
	self.LocalRecordSequenceNumber = c0
	reqA := zzCreateReq("A", zzSupi)
	cA := &gin.Context{}
	p.HandleChargingdataInitial(cA, reqA)
	vx.Assert("first create answered 201", vx.HTTPStatus(cA) == 201)
	jump := vx.Uint64("jump")
	vx.Assume(jump >= self.LocalRecordSequenceNumber && jump < 1<<62)
	self.LocalRecordSequenceNumber = jump
	cX := &gin.Context{}
	p.HandleChargingdataInitial(cX, zzCreateReq("X", zzSupi2))
	vx.Assert("another subscriber's create answered 201", vx.HTTPStatus(cX) == 201)
	reqC := zzCreateReq("C", zzSupi)
	reqC.NfConsumerIdentification.NFName = reqA.NfConsumerIdentification.NFName
	vx.Assume(reqA.ChargingId != reqC.ChargingId)
	cC := &gin.Context{}
	p.HandleChargingdataInitial(cC, reqC)
	vx.Assert("second create answered 201", vx.HTTPStatus(cC) == 201)
	locA, locC := vx.HTTPHeader(cA, "Location"), vx.HTTPHeader(cC, "Location")
	vx.Assert("the two session references differ", locA != locC)
	if len(locA) > len(zzRefPrefix) {
		ue, ok := self.ChfUeFindBySupi(zzSupi)
		if ok {
			rec := ue.Cdr[locA[len(zzRefPrefix):]]
			ok = rec != nil && rec.ChargingFunctionRecord != nil && rec.ChargingFunctionRecord.ChargingID != nil
			vx.Assert("the first reference designates a record", ok)
			if ok {
				vx.Assert("it is the record the first create opened", rec.ChargingFunctionRecord.ChargingID.Value == int64(reqA.ChargingId))
			}
		}
	}
}
