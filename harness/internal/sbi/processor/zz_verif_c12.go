package processor

//gosx:file init=github.com/free5gc/chf/cdr/asn replay=engine

import (
	"strings"

	"github.com/gin-gonic/gin"

	Nchf_ConvergedCharging "github.com/free5gc/openapi/chf/ConvergedCharging"

	chf_context "github.com/free5gc/chf/internal/context"
	vx "github.com/free5gc/chf/zzvx"
	"github.com/free5gc/openapi/models"
)

const zzRefPrefix = "http://chf.example/nchf-convergedcharging/v3/chargingdata/"

// zzCreateReq is a well-formed session-based create request.
func zzCreateReq(l, supi string) models.ChfConvergedChargingChargingDataRequest {
	cid := vx.Int32(l + ".chargingId")
	vx.Assume(cid >= 0)
	vx.Assume(cid <= 127) // one INTEGER length class: the contract does not depend on it
	return models.ChfConvergedChargingChargingDataRequest{
		SubscriberIdentifier:     supi,
		ChargingId:               cid,
		InvocationSequenceNumber: vx.Int32(l + ".seq"),
		NotifyUri:                "http://smf.example/notify/" + vx.String(l+".notify", 1),
		NfConsumerIdentification: &models.ChfConvergedChargingNfIdentification{NFName: vx.String(l+".nfname", vx.Param("namelen", 2)), NodeFunctionality: "SMF"},
	}
}

func zzStatus2xx(c *gin.Context) bool { s := vx.HTTPStatus(c); return s >= 200 && s <= 299 }
func zzStatus4xx(c *gin.Context) bool { s := vx.HTTPStatus(c); return s >= 400 && s <= 499 }

// C12 (a): create -> 201 + Location + echo; update -> 200 + echo + time stamp;
// release -> 204 without body.
//
//gosx:property=C12 tier=quick unwind=40 timeout=30000
func ZZ_C12_Contract() {
	p := zzSetup()
	rg := vx.Int32("rg")
	zzAccount(zzSupi, rg, 1000000, 10)

	create := zzCreateReq("create", zzSupi)
	c1 := &gin.Context{}
	p.HandleChargingdataInitial(c1, create)
	vx.Assert("create answered 201", vx.HTTPStatus(c1) == 201)
	loc := vx.HTTPHeader(c1, "Location")
	vx.Assert("Location designates a charging data resource", strings.HasPrefix(loc, zzRefPrefix) && len(loc) > len(zzRefPrefix))
	if !strings.HasPrefix(loc, zzRefPrefix) {
		return
	}
	ref := loc[len(zzRefPrefix):]
	resp, ok := vx.HTTPBody(c1).(*models.ChfConvergedChargingChargingDataResponse)
	vx.Assert("create body is a charging data response", ok && resp != nil)
	if ok && resp != nil {
		vx.Assert("create echoes the invocation sequence number", resp.InvocationSequenceNumber == create.InvocationSequenceNumber)
	}

	usage, _ := zzUsage("u0", rg, 1)
	zzSmallUsage(&usage)
	upd := models.ChfConvergedChargingChargingDataRequest{SubscriberIdentifier: zzSupi, InvocationSequenceNumber: vx.Int32("update.seq"),
		MultipleUnitUsage: []models.ChfConvergedChargingMultipleUnitUsage{usage}}
	c2 := &gin.Context{}
	p.HandleChargingdataUpdate(c2, upd, ref)
	vx.Assert("update answered 200", vx.HTTPStatus(c2) == 200)
	resp2, ok2 := vx.HTTPBody(c2).(*models.ChfConvergedChargingChargingDataResponse)
	vx.Assert("update body is a charging data response", ok2 && resp2 != nil)
	if ok2 && resp2 != nil {
		vx.Assert("update echoes the invocation sequence number", resp2.InvocationSequenceNumber == upd.InvocationSequenceNumber)
		vx.Assert("update carries an invocation time stamp", resp2.InvocationTimeStamp != nil)
	}

	rel := models.ChfConvergedChargingChargingDataRequest{SubscriberIdentifier: zzSupi, InvocationSequenceNumber: vx.Int32("release.seq")}
	c3 := &gin.Context{}
	p.HandleChargingdataRelease(c3, rel, ref)
	vx.Assert("release answered 204", vx.HTTPStatus(c3) == 204)
	vx.Assert("release has no body", vx.HTTPBody(c3) == nil)
}

type zzSnapshot struct {
	notifyUri string
	balance   int64
	reserved  int64
	reqNum    uint32
	nCdr      int
	nRecords  int
	nUsage    int
	dbWrites  int
}

func zzSnap(ue *chf_context.ChfUe, rg int32) zzSnapshot {
	s := zzSnapshot{notifyUri: ue.NotifyUri, balance: zzBalance(zzSupi, rg), reserved: ue.ReservedQuota[rg], reqNum: ue.AcctRequestNum[rg], nCdr: len(ue.Cdr), nRecords: len(ue.Records), dbWrites: vx.DBWrites()}
	for _, r := range ue.Records {
		if r != nil && r.ChargingFunctionRecord != nil {
			s.nUsage += len(r.ChargingFunctionRecord.ListOfMultipleUnitUsage)
		}
	}
	return s
}

// C12 (b): a request that names an unknown subscriber or an unknown session
// reference is answered 4xx and has no effect.
//
//gosx:property=C12 tier=quick unwind=40 timeout=30000
func ZZ_C12_Rejections() {
	p := zzSetup()
	rg := vx.Int32("rg")
	zzAccount(zzSupi, rg, 1000000, 10)
	// one live session of the known subscriber
	c1 := &gin.Context{}
	p.HandleChargingdataInitial(c1, zzCreateReq("create", zzSupi))
	loc := vx.HTTPHeader(c1, "Location")
	vx.Assume(strings.HasPrefix(loc, zzRefPrefix))
	ref := loc[len(zzRefPrefix):]
	ue, found := chf_context.GetSelf().ChfUeFindBySupi(zzSupi)
	vx.Assert("subscriber context exists after create", found)
	if !found {
		return
	}
	before := zzSnap(ue, rg)
	ueBefore := vx.Snapshot(ue)
	ctxBefore := vx.Snapshot(chf_context.GetSelf())

	usage, _ := zzUsage("u0", rg, 1)
	zzSmallUsage(&usage)
	req := models.ChfConvergedChargingChargingDataRequest{InvocationSequenceNumber: vx.Int32("seq"),
		MultipleUnitUsage: []models.ChfConvergedChargingMultipleUnitUsage{usage}}
	// the body may also be a bare "keep-alive" (no usage, no trigger) or carry a trigger
	switch vx.Choice("body", 3) {
	case 1:
		req.MultipleUnitUsage = nil
	case 2:
		req.Triggers = []models.ChfConvergedChargingTrigger{zzTrigger("trigger.kind")}
	}
	if vx.Choice("carriesNotifyUri", 2) == 1 {
		req.NotifyUri = "http://elsewhere.example/" + vx.String("otherNotify", 1)
	}
	badRef := ref
	switch vx.Choice("what", 2) {
	case 0: // unknown subscriber
		req.SubscriberIdentifier = zzSupi2
	default: // known subscriber, unknown / stale / foreign session reference
		req.SubscriberIdentifier = zzSupi
		badRef = vx.String("badref", 3)
		vx.Assume(badRef != ref)
	}
	c := &gin.Context{}
	if vx.Choice("op", 2) == 0 {
		p.HandleChargingdataUpdate(c, req, badRef)
	} else {
		p.HandleChargingdataRelease(c, req, badRef)
	}
	vx.Assert("rejected with 4xx", zzStatus4xx(c))
	after := zzSnap(ue, rg)
	vx.Assert("no account debit or refund", after.balance == before.balance && after.dbWrites == before.dbWrites)
	vx.Assert("no reservation change", after.reserved == before.reserved && after.reqNum == before.reqNum)
	vx.Assert("no record change", after.nCdr == before.nCdr && after.nRecords == before.nRecords && after.nUsage == before.nUsage)
	vx.Assert("registered notification URI unchanged", after.notifyUri == before.notifyUri)
	// and nothing else either: every field, map entry and record of the
	// subscriber context and of the global context is as it was
	vx.Assert("the subscriber context is unchanged in every field", vx.SameAs(ueBefore, ue))
	vx.Assert("the global context is unchanged in every field", vx.SameAs(ctxBefore, chf_context.GetSelf()))
}

// C12 (c): a recharge for a known subscriber sends exactly one
// re-authorisation notification naming the rating group to the registered URI.
//
//gosx:property=C12 tier=quick unwind=40
func ZZ_C12_Recharge() {
	p := zzSetup()
	rg := vx.Int32("rg")
	create := zzCreateReq("create", zzSupi)
	c1 := &gin.Context{}
	p.HandleChargingdataInitial(c1, create)
	vx.Assume(vx.HTTPStatus(c1) == 201)
	n0 := vx.Notifications()
	p.NotifyRecharge(zzSupi, rg)
	vx.Assert("exactly one notification", vx.Notifications() == n0+1)
	if vx.Notifications() != n0+1 {
		return
	}
	vx.Assert("sent to the notification URI the consumer registered", vx.NotificationURI(n0) == create.NotifyUri)
	body, ok := vx.NotificationBody(n0).(*zzNotifyReq)
	vx.Assert("notification request recorded", ok && body != nil && body.ChargingNotifyRequest != nil)
	if ok && body != nil && body.ChargingNotifyRequest != nil {
		d := body.ChargingNotifyRequest.ReauthorizationDetails
		vx.Assert("one re-authorisation detail naming the rating group", len(d) == 1 && d[0].RatingGroup == rg)
	}
	// unknown subscriber: nothing is sent
	p.NotifyRecharge(zzSupi2, rg)
	vx.Assert("no notification for an unknown subscriber", vx.Notifications() == n0+1)
	// every recharge is notified, whatever the history of the group: a second
	// recharge in a row, and a recharge after the group has been used by an update
	n1 := vx.Notifications()
	p.NotifyRecharge(zzSupi, rg)
	vx.Assert("a second recharge of the same group is notified as well", vx.Notifications() == n1+1)
	if loc := vx.HTTPHeader(c1, "Location"); strings.HasPrefix(loc, zzRefPrefix) && rg >= 0 && rg <= 127 {
		zzAccount(zzSupi, rg, 1000000, 10)
		u, _ := zzUsageInd("u0", rg, 1, 1)
		zzSmallUsage(&u)
		u.UsedUnitContainer[0].QuotaManagementIndicator = models.QuotaManagementIndicator_ONLINE_CHARGING
		c2 := &gin.Context{}
		p.HandleChargingdataUpdate(c2, models.ChfConvergedChargingChargingDataRequest{SubscriberIdentifier: zzSupi,
			MultipleUnitUsage: []models.ChfConvergedChargingMultipleUnitUsage{u}}, loc[len(zzRefPrefix):])
		n2 := vx.Notifications()
		p.NotifyRecharge(zzSupi, rg)
		vx.Assert("a recharge of a group in use is notified", vx.Notifications() == n2+1)
	}
}

type zzNotifyReq = Nchf_ConvergedCharging.PostChargingNotificationRequest

// zzSmallUsage keeps every volume of the entry in one INTEGER length class
// (0..127) so that BER encoding of the record does not fork.
func zzSmallUsage(u *models.ChfConvergedChargingMultipleUnitUsage) {
	vx.Assume(u.RequestedUnit.TotalVolume <= 127)
	for i := range u.UsedUnitContainer {
		c := &u.UsedUnitContainer[i]
		vx.Assume(c.TotalVolume <= 127)
		vx.Assume(c.UplinkVolume >= 0)
		vx.Assume(c.UplinkVolume <= 127)
		vx.Assume(c.DownlinkVolume >= 0)
		vx.Assume(c.DownlinkVolume <= 127)
		vx.Assume(c.LocalSequenceNumber >= 0)
		vx.Assume(c.LocalSequenceNumber <= 127)
		vx.Assume(c.ServiceSpecificUnits >= 0)
		vx.Assume(c.ServiceSpecificUnits <= 127)
	}
}
