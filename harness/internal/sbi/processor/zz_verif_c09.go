package processor

//gosx:file init=github.com/free5gc/chf/cdr/asn replay=engine

import (
	"os"

	"github.com/gin-gonic/gin"

	chf_context "github.com/free5gc/chf/internal/context"
	vx "github.com/free5gc/chf/zzvx"
	"github.com/free5gc/openapi/models"
)

// C09 (a): lock discipline. Every entry point that touches subscriber or
// global state (create, update, release, recharge notification) is executed
// with symbolic inputs; every read and write of a field of the shared CHF
// context and of a subscriber context that has been published in the UE pool
// records the set of mutexes held. A location that is written and whose
// accesses have no mutex in common can be raced on by two requests, for any
// number of threads and any schedule (Eraser discipline); conversely a common
// lock serialises all accesses to it. Locks taken must be released on exit.
//
//gosx:property=C09 tier=quick unwind=40 timeout=30000
func ZZ_C09_LockDiscipline() {
	p := zzSetup()
	zzAccount(zzSupi, 1, 1000000, 10)
	self := chf_context.GetSelf()
	vx.Watch(self, "CHFContext")

	ref, _ := zzCreate(p, "A", zzSupi)
	// same subscriber, found in the pool; its notifyUri (optional) replaces the first one
	reqB := zzCreateReq("B", zzSupi)
	if vx.Choice("noNotifyUri", 2) == 1 {
		reqB.NotifyUri = ""
	}
	cB := &gin.Context{}
	p.HandleChargingdataInitial(cB, reqB)
	vx.Assert("second create answered 201", vx.HTTPStatus(cB) == 201)
	u, _ := zzUsageInd("u0", 1, 1, 2)
	zzSmallUsage(&u)
	req := models.ChfConvergedChargingChargingDataRequest{SubscriberIdentifier: zzSupi, MultipleUnitUsage: []models.ChfConvergedChargingMultipleUnitUsage{u}}
	if vx.Choice("trigger", 2) == 1 {
		req.Triggers = []models.ChfConvergedChargingTrigger{zzTrigger("trigger.kind")}
	}
	c := &gin.Context{}
	p.HandleChargingdataUpdate(c, req, ref)
	p.NotifyRecharge(zzSupi, 1)
	c2 := &gin.Context{}
	p.HandleChargingdataRelease(c2, req, ref)
	vx.Assert("no lock left held", vx.LocksHeld() == 0)
	vx.AssertLockDiscipline()
}

// C09 (b): two creates in flight at the same time - for the same known
// subscriber, for the same NEW subscriber, or for different subscribers -
// under every interleaving at scheduling-point granularity (mutex, sync.Map
// and channel operations; sequentially consistent; bounded number of
// voluntary context switches). When both have completed: both were answered
// 201, their session references differ, and every acknowledged session is
// still addressable (its record is reachable through the subscriber context
// that the pool holds for its SUPI). No interleaving deadlocks.
//
//gosx:property=C09 tier=quick unwind=40 timeout=30000 p.preempt=3 p.preempt.thorough=5
func ZZ_C09_ConcurrentCreates() {
	p := zzSetup()
	self := chf_context.GetSelf()
	scenario := vx.Choice("scenario", 3)
	supiA, supiB := zzSupi, zzSupi
	switch scenario {
	case 0: // same subscriber, already known
		zzCreate(p, "warmup", zzSupi)
	case 1: // same subscriber, not yet known: both creates race to add it
	default: // different subscribers
		supiB = zzSupi2
	}
	reqA := zzCreateReq("A", supiA)
	reqB := zzCreateReq("B", supiB)
	// same consumer name: the references can only differ by the counter
	reqB.NfConsumerIdentification.NFName = reqA.NfConsumerIdentification.NFName
	cA, cB := &gin.Context{}, &gin.Context{}
	vx.Parallel(
		func() { p.HandleChargingdataInitial(cA, reqA) },
		func() { p.HandleChargingdataInitial(cB, reqB) },
	)
	vx.Assert("both creates answered 201", vx.HTTPStatus(cA) == 201 && vx.HTTPStatus(cB) == 201)
	locA, locB := vx.HTTPHeader(cA, "Location"), vx.HTTPHeader(cB, "Location")
	vx.Assert("concurrent creates return different session references", locA != locB)
	vx.Assert("no lock left held", vx.LocksHeld() == 0)
	for i, loc := range []string{locA, locB} {
		supi := supiA
		if i == 1 {
			supi = supiB
		}
		if len(loc) <= len(zzRefPrefix) {
			continue
		}
		ue, ok := self.ChfUeFindBySupi(supi)
		vx.Assert("subscriber of an acknowledged session is in the pool", ok)
		if ok {
			vx.Assert("every acknowledged session is still addressable", ue.Cdr[loc[len(zzRefPrefix):]] != nil)
		}
	}
}

// C09 (b'): an update in flight together with another update, a release of a
// second session, or a recharge notification of the same subscriber: under
// every interleaving both complete, each reported usage entry is recorded
// exactly once in its own session's record, and conservation (C01) holds
// for the group at quiescence.
//
//gosx:property=C09 tier=quick shards=3 unwind=40 timeout=30000 p.preempt=0 p.preempt.thorough=1 maxseconds.thorough=3000
func ZZ_C09_ConcurrentUpdates() {
	p := zzSetup()
	rg := int32(1)
	q := vx.Int64("balance")
	vx.Assume(q >= 0)
	vx.Assume(q < 1<<40)
	cost := int64(10)
	zzAccount(zzSupi, rg, q, cost)
	refA, _ := zzCreate(p, "A", zzSupi)
	refB, _ := zzCreate(p, "B", zzSupi)
	ue, _ := chf_context.GetSelf().ChfUeFindBySupi(zzSupi)
	mk := func(l string) (models.ChfConvergedChargingChargingDataRequest, int64) {
		u, online := zzUsageInd(l, rg, 1, 2)
		zzSmallUsage(&u)
		return models.ChfConvergedChargingChargingDataRequest{SubscriberIdentifier: zzSupi, MultipleUnitUsage: []models.ChfConvergedChargingMultipleUnitUsage{u}}, online
	}
	r1, on1 := mk("u1")
	r2, on2 := mk("u2")
	c1, c2 := &gin.Context{}, &gin.Context{}
	other := vx.Param("shard", 0) // one kind of concurrent partner per shard
	vx.Parallel(
		func() { p.HandleChargingdataUpdate(c1, r1, refA) },
		func() {
			switch other {
			case 0:
				p.HandleChargingdataUpdate(c2, r2, refA)
			case 1:
				p.HandleChargingdataRelease(c2, r2, refB)
			default:
				p.NotifyRecharge(zzSupi, rg)
			}
		},
	)
	vx.Assert("no lock left held", vx.LocksHeld() == 0)
	vx.Assert("first update answered 200", vx.HTTPStatus(c1) == 200)
	nA, nB := len(zzUsageList(ue, refA)), len(zzUsageList(ue, refB))
	reported := int64(0)
	switch other {
	case 0:
		vx.Assert("second update answered 200", vx.HTTPStatus(c2) == 200)
		vx.Assert("both usage entries recorded exactly once in session A", nA == 2 && nB == 0)
		reported = on1 + on2
	case 1:
		vx.Assert("release answered 204", vx.HTTPStatus(c2) == 204)
		vx.Assert("each usage entry recorded exactly once in its own session", nA == 1 && nB == 1)
		reported = on1 + on2
	default:
		vx.Assert("the usage entry is recorded exactly once", nA == 1 && nB == 0)
		reported = on1
	}
	vx.Assert("credit conserved at quiescence", zzBalance(zzSupi, rg)+ue.ReservedQuota[rg] == q-cost*reported)
}

// zzContains: needle occurs in hay (built as one boolean term, no branching
// on symbolic bytes).
func zzContains(hay []byte, needle string) bool {
	found := false
	nb := []byte(needle)
	for i := 0; i+len(nb) <= len(hay); i++ {
		found = vx.Or(found, vx.BytesEq(hay[i:i+len(nb)], nb))
	}
	return found
}

// C09 (c): requests of two DIFFERENT subscribers in flight together (their
// subscriber locks do not exclude each other), under every interleaving at
// scheduling points including the file operations of the CDR dump: both are
// answered 200 and each subscriber's CDR file holds that subscriber's record
// and nothing of the other's.
//
//gosx:property=C09 tier=quick unwind=40 timeout=30000 p.preempt=2 p.preempt.thorough=4
func ZZ_C09_DifferentSubscribers() {
	p := zzSetup()
	zzAccount(zzSupi, 1, 1000000, 10)
	zzAccount(zzSupi2, 1, 1000000, 10)
	refA, _ := zzCreate(p, "A", zzSupi)
	refB, _ := zzCreate(p, "B", zzSupi2)
	mk := func(l, supi string) models.ChfConvergedChargingChargingDataRequest {
		u, _ := zzUsageInd(l, 1, 1, 1)
		zzSmallUsage(&u)
		return models.ChfConvergedChargingChargingDataRequest{SubscriberIdentifier: supi,
			MultipleUnitUsage: []models.ChfConvergedChargingMultipleUnitUsage{u}}
	}
	reqA, reqB := mk("ua", zzSupi), mk("ub", zzSupi2)
	cA, cB := &gin.Context{}, &gin.Context{}
	vx.Config("sched.ioYield", true)
	vx.Parallel(
		func() { p.HandleChargingdataUpdate(cA, reqA, refA) },
		func() { p.HandleChargingdataUpdate(cB, reqB, refB) },
	)
	vx.Assert("both updates answered 200", vx.HTTPStatus(cA) == 200 && vx.HTTPStatus(cB) == 200)
	vx.Assert("no lock left held", vx.LocksHeld() == 0)
	for i, supi := range []string{zzSupi, zzSupi2} {
		other := zzSupi2
		if i == 1 {
			other = zzSupi
		}
		d, err := os.ReadFile("/tmp/" + supi + ".cdr")
		vx.Assert("each subscriber has a CDR file", err == nil)
		if err != nil {
			continue
		}
		vx.Assert("a subscriber's CDR file holds that subscriber's record", zzContains(d, supi[5:]))
		vx.Assert("a subscriber's CDR file holds nothing of the other subscriber", !zzContains(d, other[5:]))
	}
}
