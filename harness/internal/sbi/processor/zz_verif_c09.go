package processor

//gosx:file init=github.com/free5gc/chf/cdr/asn replay=engine

import (
	"github.com/gin-gonic/gin"

	chf_context "github.com/free5gc/chf/internal/context"
	vx "github.com/free5gc/chf/zzvx"
	"github.com/free5gc/openapi/models"
)

// C09 (a): lock discipline. Every entry point that touches subscriber or
// global state (create, update, release, recharge notification) is executed
// with symbolic inputs; every read and write of a field of the shared CHF
// context and of a subscriber context that has been published in the UE pool
// records the set of mutexes held. A location that is written and whose
// accesses have no mutex in common can be raced on by two requests, for any
// number of threads and any schedule (Eraser discipline); conversely a common
// lock serialises all accesses to it. Locks taken must be released on exit.
//
//gosx:property=C09 tier=quick unwind=40 timeout=30000
func ZZ_C09_LockDiscipline() {
	p := zzSetup()
	zzAccount(zzSupi, 1, 1000000, 10)
	self := chf_context.GetSelf()
	vx.Watch(self, "CHFContext")

	ref, _ := zzCreate(p, "A", zzSupi)
	ref2, _ := zzCreate(p, "B", zzSupi) // same subscriber, found in the pool
	_ = ref2
	u, _ := zzUsageInd("u0", 1, 1, 2)
	zzSmallUsage(&u)
	req := models.ChfConvergedChargingChargingDataRequest{SubscriberIdentifier: zzSupi, MultipleUnitUsage: []models.ChfConvergedChargingMultipleUnitUsage{u}}
	if vx.Choice("trigger", 2) == 1 {
		req.Triggers = []models.ChfConvergedChargingTrigger{zzTrigger("trigger.kind")}
	}
	c := &gin.Context{}
	p.HandleChargingdataUpdate(c, req, ref)
	p.NotifyRecharge(zzSupi, 1)
	c2 := &gin.Context{}
	p.HandleChargingdataRelease(c2, req, ref)
	vx.Assert("no lock left held", vx.LocksHeld() == 0)
	vx.AssertLockDiscipline()
}
