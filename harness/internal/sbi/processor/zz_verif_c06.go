package processor

//gosx:file init=github.com/free5gc/chf/cdr/asn replay=engine

import (
	charging_datatype "github.com/free5gc/chf/ccs_diameter/datatype"
	chf_context "github.com/free5gc/chf/internal/context"
	vx "github.com/free5gc/chf/zzvx"
	"github.com/free5gc/openapi/models"
)

// C06 inductive step. The state invariant is
//
//	I:  balance >= 0  and  reservation >= 0  and  lastGranted x cost <= reservation + balance
//
// (lastGranted is a ghost: the volume granted by the previous response for
// the group, 0 initially) and the consumer reports used <= lastGranted.
//
//gosx:property=C06 tier=quick shards=5 unwind=40 timeout=30000
func ZZ_C06_Step() {
	zzSetup()
	rg := vx.Int32("rg")
	q := vx.Int64("balance")
	vx.Assume(q >= 0)
	vx.Assume(q < 1<<40)
	cost := zzCostChoice()
	zzAccount(zzSupi, rg, q, cost)
	self := chf_context.GetSelf()
	ue, err := self.NewCHFUe(zzSupi)
	vx.Assert("subscriber context created", err == nil && ue != nil)

	reserved := int64(0)
	lastGranted := int64(0)
	mode := vx.Choice("pre.group", 3)
	if mode != 0 {
		if mode == 1 {
			ue.RatingType[rg] = charging_datatype.REQ_SUBTYPE_RESERVE
		} else {
			ue.RatingType[rg] = charging_datatype.REQ_SUBTYPE_DEBIT
		}
		ue.RatingGroups = append(ue.RatingGroups, rg)
		reserved = vx.Int64("pre.reserved")
		vx.Assume(reserved >= 0)
		vx.Assume(reserved < 1<<40)
		ue.ReservedQuota[rg] = reserved
		lastGranted = vx.Int64("pre.lastGranted")
		vx.Assume(lastGranted >= 0)
		vx.Assume(lastGranted < 1<<31)
		vx.Assume(lastGranted*cost <= reserved+q) // I
	}

	requested := vx.Int32("requested")
	used := vx.Int32("used")
	vx.Assume(requested >= 0)
	vx.Assume(used >= 0)
	vx.Assume(int64(used) <= lastGranted) // compliant consumer
	vx.Assume(int64(requested)*cost < 1<<32)
	vx.Assume(int64(used)*cost < 1<<32)
	u := models.ChfConvergedChargingMultipleUnitUsage{RatingGroup: rg, UPFID: "upf", RequestedUnit: &models.RequestedUnit{TotalVolume: requested}}
	u.UsedUnitContainer = []models.ChfConvergedChargingUsedUnitContainer{{QuotaManagementIndicator: models.QuotaManagementIndicator_ONLINE_CHARGING, TotalVolume: used}}
	req := models.ChfConvergedChargingChargingDataRequest{SubscriberIdentifier: zzSupi, MultipleUnitUsage: []models.ChfConvergedChargingMultipleUnitUsage{u}}
	final := false
	if vx.Choice("trigger", 2) == 1 {
		tr := zzTrigger("trigger.kind")
		req.Triggers = []models.ChfConvergedChargingTrigger{tr}
		final = tr.TriggerType == models.ChfConvergedChargingTriggerType_FINAL
	}
	vx.Tag("mode", int64(mode))

	vx.Tag("reserved", reserved)
	vx.Tag("balance64", q)
	vx.Tag("cost", cost)
	vx.Tag("used64", int64(used))
	vx.Tag("requested64", int64(requested))

	info, _ := sessionChargingReservation(req)

	after := zzBalance(zzSupi, rg)
	res := ue.ReservedQuota[rg]
	vx.Assert("(i) balance never negative", after >= 0)
	vx.Assert("(i) reservation never negative", res >= 0)
	vx.Assert("one unit information per credit-controlled usage entry", len(info) == 1)
	if len(info) != 1 {
		return
	}
	granted := int64(0)
	if info[0].GrantedUnit != nil {
		granted = int64(info[0].GrantedUnit.TotalVolume)
	}
	vx.Assert("grant is not negative and not more than requested", granted >= 0 && granted <= int64(requested))
	vx.Assert("(ii) the grant is backed by money held: granted x cost <= reservation + balance", granted*cost <= res+after)
	// money available for the group before the grant
	left := reserved - int64(used)*cost
	if left < 0 {
		left = 0
	}
	// (iii) is about requests that ask for further service: the final report of
	// a rating group (FINAL trigger) ends quota management for it and is exempt
	if !final && int64(requested)*cost > q+left {
		fui := info[0].FinalUnitIndication
		vx.Assert("(iii) final-unit indication when the money buys less than requested", fui != nil && fui.FinalUnitAction == models.FinalUnitAction_TERMINATE)
	}
}

// Known-finding regions (see /verif/known_findings.json).

// The requested volume costs more than the money available for the group:
// the CHF grants the requested volume regardless (over-grant).
func ZZ_C06_regionShortOfMoney(requested64, cost, balance64, reserved, used64 int64) bool {
	return requested64*cost > balance64+reserved-used64*cost
}

// Part of the reservation is still unconsumed, so the CHF does not ask the
// account server for a top-up and never learns that the money is short.
func ZZ_C06_regionReservationLeft(reserved, used64, cost int64) bool {
	return reserved-used64*cost > 0
}

// The group is already in debit mode (its previous grant was the last one):
// the response grants zero units but carries no final-unit action.
func ZZ_C06_regionDebitMode(mode int64) bool { return mode == 2 }

// C06 with two rating groups in one request (update or final report): a
// compliant consumer (used x cost <= reservation held for that group) never
// drives either balance or reservation negative.
//
//gosx:property=C06 tier=quick unwind=40 timeout=30000
func ZZ_C06_TwoGroups() {
	t, req := zzTwoGroupsSetup(true)
	for i := 0; i < 2; i++ {
		vx.Assume(int64(t.used[i])*t.cost <= t.reserved[i]) // usage within what was granted and paid for
	}
	sessionChargingReservation(req)
	ue, _ := chf_context.GetSelf().ChfUeFindBySupi(zzSupi)
	for i := 0; i < 2; i++ {
		vx.Assert("balance of each group never negative", zzBalance(zzSupi, t.rg[i]) >= 0)
		vx.Assert("reservation of each group never negative", ue.ReservedQuota[t.rg[i]] >= 0)
	}
}
