package processor

//gosx:file init=github.com/free5gc/chf/cdr/asn replay=engine

import (
	charging_datatype "github.com/free5gc/chf/ccs_diameter/datatype"
	chf_context "github.com/free5gc/chf/internal/context"
	vx "github.com/free5gc/chf/zzvx"
	"github.com/free5gc/openapi/models"
)

// C06 inductive step. The state invariant is
//
//	I:  balance >= 0  and  reservation >= 0  and  lastGranted x cost <= reservation + balance
//
// (lastGranted is a ghost: the volume granted by the previous response for
// the group, 0 initially) and the consumer reports used <= lastGranted.
//
//gosx:property=C06 tier=quick shards=5 unwind=40 timeout=30000 maxseconds=2400
func ZZ_C06_Step() {
	zzSetup()
	rg := vx.Int32("rg")
	q := vx.Int64("balance")
	vx.Assume(q >= 0)
	vx.Assume(q < 1<<40)
	cost := zzCostChoice()
	zzAccount(zzSupi, rg, q, cost)
	self := chf_context.GetSelf()
	ue, err := self.NewCHFUe(zzSupi)
	vx.Assert("subscriber context created", err == nil && ue != nil)

	reserved := int64(0)
	lastGranted := int64(0)
	mode := vx.Choice("pre.group", 3)
	if mode != 0 {
		if mode == 1 {
			ue.RatingType[rg] = charging_datatype.REQ_SUBTYPE_RESERVE
		} else {
			ue.RatingType[rg] = charging_datatype.REQ_SUBTYPE_DEBIT
		}
		ue.RatingGroups = append(ue.RatingGroups, rg)
		reserved = vx.Int64("pre.reserved")
		vx.Assume(reserved >= 0)
		vx.Assume(reserved < 1<<40)
		ue.ReservedQuota[rg] = reserved
		lastGranted = vx.Int64("pre.lastGranted")
		vx.Assume(lastGranted >= 0)
		vx.Assume(lastGranted < 1<<31)
		vx.Assume(lastGranted*cost <= reserved+q) // I
	}

	requested := vx.Int32("requested")
	used := vx.Int32("used")
	vx.Assume(requested >= 0)
	vx.Assume(used >= 0)
	vx.Assume(int64(used) <= lastGranted)    // compliant consumer
	vx.Assume(int64(requested)*cost < 1<<32) // (products beyond 32 bits: ZZ_C06_BigProducts)
	vx.Assume(int64(used)*cost < 1<<32)
	u := models.ChfConvergedChargingMultipleUnitUsage{RatingGroup: rg, UPFID: "upf", RequestedUnit: &models.RequestedUnit{TotalVolume: requested}}
	u.UsedUnitContainer = []models.ChfConvergedChargingUsedUnitContainer{{QuotaManagementIndicator: models.QuotaManagementIndicator_ONLINE_CHARGING, TotalVolume: used}}
	req := models.ChfConvergedChargingChargingDataRequest{SubscriberIdentifier: zzSupi, MultipleUnitUsage: []models.ChfConvergedChargingMultipleUnitUsage{u}}
	final := false
	if vx.Choice("trigger", 2) == 1 {
		tr := zzTrigger("trigger.kind")
		req.Triggers = []models.ChfConvergedChargingTrigger{tr}
		final = tr.TriggerType == models.ChfConvergedChargingTriggerType_FINAL
	}
	vx.Tag("mode", int64(mode))

	vx.Tag("reserved", reserved)
	vx.Tag("balance64", q)
	vx.Tag("cost", cost)
	vx.Tag("used64", int64(used))
	vx.Tag("requested64", int64(requested))

	info, _ := sessionChargingReservation(req)

	after := zzBalance(zzSupi, rg)
	res := ue.ReservedQuota[rg]
	vx.Assert("(i) balance never negative", after >= 0)
	vx.Assert("(i) reservation never negative", res >= 0)
	// The induction over histories treats the reservation the CHF books as real
	// money. That is only sound if the step keeps the books honest (the
	// conservation law of C01): otherwise a later grant is "backed" by money
	// that was already spent.
	vx.Assert("bookkeeping lemma: reservation' + balance' = reservation + balance - cost x used", res+after == reserved+q-int64(used)*cost)
	vx.Assert("one unit information per credit-controlled usage entry", len(info) == 1)
	if len(info) != 1 {
		return
	}
	granted := int64(0)
	if info[0].GrantedUnit != nil {
		granted = int64(info[0].GrantedUnit.TotalVolume)
	}
	vx.Assert("grant is not negative and not more than requested", granted >= 0 && granted <= int64(requested))
	vx.Assert("(ii) the grant is backed by money held: granted x cost <= reservation + balance", granted*cost <= res+after)
	// money available for the group before the grant
	left := reserved - int64(used)*cost
	if left < 0 {
		left = 0
	}
	// (iii) is about requests that ask for further service: the final report of
	// a rating group (FINAL trigger) ends quota management for it and is exempt
	if !final && int64(requested)*cost > q+left {
		fui := info[0].FinalUnitIndication
		vx.Assert("(iii) final-unit indication when the money buys less than requested", fui != nil && fui.FinalUnitAction == models.FinalUnitAction_TERMINATE)
	}
}

// Known-finding regions (see /verif/known_findings.json).

// The requested volume costs more than the money available for the group:
// the CHF grants the requested volume regardless (over-grant).
func ZZ_C06_regionShortOfMoney(requested64, cost, balance64, reserved, used64 int64) bool {
	return requested64*cost > balance64+reserved-used64*cost
}

// Part of the reservation is still unconsumed, so the CHF does not ask the
// account server for a top-up and never learns that the money is short.
func ZZ_C06_regionReservationLeft(reserved, used64, cost int64) bool {
	return reserved-used64*cost > 0
}

// Requested volume x tariff does not fit 32 bits: the CHF computes the money
// amount in uint32, asks the account server for the wrapped amount and gets
// it without a final-unit indication although the real price exceeds the
// money available (the grant itself is limited to the wrapped amount).
func ZZ_C06_regionProductBeyond32Bits(requested64, cost int64) bool {
	return requested64*cost >= 1<<32
}

// The group is already in debit mode (its previous grant was the last one):
// the response grants zero units but carries no final-unit action.
func ZZ_C06_regionDebitMode(mode int64) bool { return mode == 2 }

// C06 with two rating groups in one request (update or final report): a
// compliant consumer (used x cost <= reservation held for that group) never
// drives either balance or reservation negative.
//
//gosx:property=C06 tier=quick unwind=40 timeout=30000
func ZZ_C06_TwoGroups() {
	t, req := zzTwoGroupsSetup(true)
	for i := 0; i < 2; i++ {
		vx.Assume(int64(t.used[i])*t.cost <= t.reserved[i]) // usage within what was granted and paid for
	}
	sessionChargingReservation(req)
	ue, _ := chf_context.GetSelf().ChfUeFindBySupi(zzSupi)
	for i := 0; i < 2; i++ {
		vx.Assert("balance of each group never negative", zzBalance(zzSupi, t.rg[i]) >= 0)
		vx.Assert("reservation of each group never negative", ue.ReservedQuota[t.rg[i]] >= 0)
	}
}

// C06 over histories: one subscriber and rating group from a fresh account
// through up to N requests (reports with or without a FINAL trigger), every
// request arbitrary within the compliance assumption (used <= last grant).
// After every request the clauses of ZZ_C06_Step are asserted. A ghost
// variable follows what the consumer has been told: the group is "closed"
// after a final-unit indication or a FINAL report, and open again after a
// settlement that refunded money. The recorded over-grant (known finding) is
// confined to requests made while the group is open; a grant made while the
// group is closed and nothing is held - whatever history led there - is a
// violation. A history ends at the first over-grant: what follows it are
// consequences of that violation, not new ones. Bounds: 3 requests (quick: 2
// when neither of the first two is a FINAL report), balance < 2^20, volumes
// < 4096, unit cost 1 or 2 (with cost 10 the chained products of three
// requests were not decided within the limits; cost 10..9999 is covered by
// the one-step harness from an arbitrary state).
//
//gosx:property=C06 tier=quick shards=8 unwind=40 timeout=30000 p.steps=3 p.plainsteps=2 p.plainsteps.thorough=3 maxseconds=2400 maxseconds.thorough=3000
func ZZ_C06_History() {
	zzSetup()
	rg := int32(1)
	q := vx.Int64("balance")
	vx.Assume(q >= 0)
	vx.Assume(q < 1<<20)
	cost := []int64{1, 2}[vx.Param("shard", 0)%2] // 2: units and money differ, products stay shifts
	zzAccount(zzSupi, rg, q, cost)
	ue, err := chf_context.GetSelf().NewCHFUe(zzSupi)
	vx.Assert("subscriber context created", err == nil && ue != nil)
	closed := false
	lastGranted := int64(0)
	steps := vx.Param("steps", 3)
	if vx.Param("nshards", 1) == 8 && vx.Param("shard", 0) < 2 {
		// histories whose first two requests carry no FINAL trigger are the
		// expensive ones: the quick tier follows them for two requests only
		steps = vx.Param("plainsteps", 2)
	}
	for i := 0; i < steps; i++ {
		l := "s" + string(rune('0'+i))
		requested := vx.Int32(l + ".requested")
		used := vx.Int32(l + ".used")
		vx.Assume(requested >= 0)
		vx.Assume(used >= 0)
		vx.Assume(int64(used) <= lastGranted)
		vx.Assume(requested < 1<<12) // small volumes: the arithmetic of three chained requests stays decidable
		u := models.ChfConvergedChargingMultipleUnitUsage{RatingGroup: rg, UPFID: "upf", RequestedUnit: &models.RequestedUnit{TotalVolume: requested}}
		u.UsedUnitContainer = []models.ChfConvergedChargingUsedUnitContainer{{QuotaManagementIndicator: models.QuotaManagementIndicator_ONLINE_CHARGING, TotalVolume: used}}
		req := models.ChfConvergedChargingChargingDataRequest{SubscriberIdentifier: zzSupi, MultipleUnitUsage: []models.ChfConvergedChargingMultipleUnitUsage{u}}
		// the FINAL choice of the first two requests is fixed per shard
		var final bool
		if i < 2 && vx.Param("nshards", 1) == 8 {
			final = vx.Param("shard", 0)>>uint(i+1)&1 == 1
		} else {
			final = vx.Choice(l+".final", 2) == 1
		}
		if final {
			req.Triggers = []models.ChfConvergedChargingTrigger{{TriggerType: models.ChfConvergedChargingTriggerType_FINAL}}
			closed = true
		}
		reserved := ue.ReservedQuota[rg]
		before := zzBalance(zzSupi, rg)
		mode := int64(1)
		if closed {
			mode = 2
		}
		vx.Tag("mode", mode)
		vx.Tag("reserved", reserved)
		vx.Tag("balance64", before)
		vx.Tag("cost", cost)
		vx.Tag("used64", int64(used))
		vx.Tag("requested64", int64(requested))

		info, _ := sessionChargingReservation(req)

		after := zzBalance(zzSupi, rg)
		res := ue.ReservedQuota[rg]
		vx.Assert("(i) balance never negative", after >= 0)
		vx.Assert("(i) reservation never negative", res >= 0)
		vx.Assert("one unit information per credit-controlled usage entry", len(info) == 1)
		if len(info) != 1 {
			return
		}
		granted := int64(0)
		if info[0].GrantedUnit != nil {
			granted = int64(info[0].GrantedUnit.TotalVolume)
		}
		vx.Assert("grant is not negative and not more than requested", granted >= 0 && granted <= int64(requested))
		vx.Assert("(ii) the grant is backed by money held: granted x cost <= reservation + balance", granted*cost <= res+after)
		left := reserved - int64(used)*cost
		if left < 0 {
			left = 0
		}
		fui := info[0].FinalUnitIndication
		told := fui != nil && fui.FinalUnitAction == models.FinalUnitAction_TERMINATE
		if !final && int64(requested)*cost > before+left {
			vx.Assert("(iii) final-unit indication when the money buys less than requested", told)
		}
		if granted*cost > res+after {
			return // over-granted: the history ends here
		}
		// ghost: what the consumer knows about the group
		if closed {
			if int64(used)*cost < reserved {
				closed = false // settled with a refund: quota management resumes
			}
		} else if told {
			closed = true
		}
		lastGranted = granted
	}
}

// History form of the recorded over-grant: money short while the group is open.
func ZZ_C06_regionShortOfMoneyWhileOpen(mode, requested64, cost, balance64, reserved, used64 int64) bool {
	return mode != 2 && requested64*cost > balance64+reserved-used64*cost
}

// C06 where requested volume x tariff does not fit 32 bits (C06 is quantified
// over all volumes and costs; the CHF computes money amounts in uint32): the
// first request of a rating group, from any balance. The balance stays
// non-negative and the grant stays backed by money held; the missing
// final-unit indication is a recorded known finding.
//
//gosx:property=C06 tier=quick unwind=40 timeout=30000
func ZZ_C06_BigProducts() {
	zzSetup()
	rg := int32(1)
	q := vx.Int64("balance")
	vx.Assume(q >= 0)
	vx.Assume(q < 1<<40)
	cost := []int64{10, 333, 9999}[vx.Choice("cost", 3)]
	zzAccount(zzSupi, rg, q, cost)
	ue, err := chf_context.GetSelf().NewCHFUe(zzSupi)
	vx.Assert("subscriber context created", err == nil && ue != nil)
	requested := vx.Int32("requested")
	vx.Assume(requested >= 0)
	vx.Assume(int64(requested)*cost >= 1<<32)
	u := models.ChfConvergedChargingMultipleUnitUsage{RatingGroup: rg, UPFID: "upf", RequestedUnit: &models.RequestedUnit{TotalVolume: requested}}
	u.UsedUnitContainer = []models.ChfConvergedChargingUsedUnitContainer{{QuotaManagementIndicator: models.QuotaManagementIndicator_ONLINE_CHARGING, TotalVolume: 0}}
	req := models.ChfConvergedChargingChargingDataRequest{SubscriberIdentifier: zzSupi, MultipleUnitUsage: []models.ChfConvergedChargingMultipleUnitUsage{u}}
	vx.Tag("requested64", int64(requested))
	vx.Tag("cost", cost)
	vx.Tag("balance64", q)
	info, _ := sessionChargingReservation(req)
	after := zzBalance(zzSupi, rg)
	res := ue.ReservedQuota[rg]
	vx.Assert("(i) balance never negative", after >= 0)
	vx.Assert("(i) reservation never negative", res >= 0)
	vx.Assert("bookkeeping lemma: reservation' + balance' = balance", res+after == q)
	if len(info) != 1 {
		vx.Fail("one unit information per credit-controlled usage entry")
		return
	}
	granted := int64(0)
	if info[0].GrantedUnit != nil {
		granted = int64(info[0].GrantedUnit.TotalVolume)
	}
	vx.Assert("grant is not negative and not more than requested", granted >= 0 && granted <= int64(requested))
	vx.Assert("(ii) the grant is backed by money held: granted x cost <= reservation + balance", granted*cost <= res+after)
	if int64(requested)*cost > q {
		fui := info[0].FinalUnitIndication
		vx.Assert("(iii) final-unit indication when the money buys less than requested", fui != nil && fui.FinalUnitAction == models.FinalUnitAction_TERMINATE)
	}
}

// The recorded over-grant in its wrapped form: the amount the CHF asks the
// account server for (requested x cost modulo 2^32) exceeds the balance.
func ZZ_C06_regionWrappedShortOfMoney(requested64, cost, balance64 int64) bool {
	return (requested64*cost)&0xffffffff > balance64
}
