package sbi

//gosx:file init=github.com/free5gc/chf/internal/sbi replay=engine

import (
	"context"
	"net/http"
	"strings"
	"sync"

	"github.com/fiorix/go-diameter/diam/sm"
	"github.com/gin-gonic/gin"

	chf_context "github.com/free5gc/chf/internal/context"
	"github.com/free5gc/chf/internal/sbi/consumer"
	"github.com/free5gc/chf/internal/sbi/processor"
	"github.com/free5gc/chf/pkg/factory"
	vx "github.com/free5gc/chf/zzvx"
	Nchf_ConvergedCharging "github.com/free5gc/openapi/chf/ConvergedCharging"
	"github.com/free5gc/openapi/models"
)

// zzApp is the application object the server is wired to in the harness.
type zzApp struct {
	cfg        *factory.Config
	ctx        *chf_context.CHFContext
	p          *processor.Processor
	terminated bool
}

func (a *zzApp) SetLogEnable(bool)                {}
func (a *zzApp) SetLogLevel(string)               {}
func (a *zzApp) SetReportCaller(bool)             {}
func (a *zzApp) Start()                           {}
func (a *zzApp) Terminate()                       { a.terminated = true }
func (a *zzApp) Context() *chf_context.CHFContext { return a.ctx }
func (a *zzApp) Config() *factory.Config          { return a.cfg }
func (a *zzApp) Consumer() *consumer.Consumer     { return nil }
func (a *zzApp) Processor() *processor.Processor  { return a.p }
func (a *zzApp) CancelContext() context.Context   { return context.Background() }

var zzServiceNames = []string{"nchf-convergedcharging", "nchf-offlineonlycharging", "nchf-spendinglimitcontrol", "nchf-unknown"}

// C13: for every list of enabled services (every subset, order and
// duplication up to the bound, plus an unknown name), with OAuth2 required,
// every registered route rejects a request whose token does not verify with
// 401 before any API handler runs, and every route lies in a protected group.
//
//gosx:property=C13 tier=quick p.maxlist=2 p.maxlist.thorough=4
func ZZ_C13_EveryRouteProtected() {
	n := vx.Choice("listlen", vx.Param("maxlist", 2)+1)
	var list []string
	for i := 0; i < n; i++ {
		list = append(list, zzServiceNames[vx.Choice("svc", len(zzServiceNames))])
	}
	ctx := chf_context.GetSelf()
	// the NRF declares OAuth2 mandatory when the CHF registers, which at real
	// start-up happens AFTER the router has been built (NewServer, then Run);
	// both orders are explored
	lateFlag := vx.Choice("flagSetAfterRouterIsBuilt", 2) == 1
	ctx.OAuth2Required = !lateFlag
	// the path of the NRF certificate is an optional configuration member
	ctx.NrfCertPem = []string{"nrf.pem", ""}[vx.Choice("nrfCertPem", 2)]
	app := &zzApp{cfg: &factory.Config{Configuration: &factory.Configuration{ServiceNameList: list}}, ctx: ctx, p: &processor.Processor{}}
	s := &Server{ServerChf: app}
	router := newRouter(s)
	vx.Assert("router created", router != nil)
	ctx.OAuth2Required = true

	known := 0
	for _, name := range list {
		if name != "nchf-unknown" {
			known++
		}
	}
	vx.Assert("an enabled service registers at least one route", known == 0 || vx.GinRoutes() > 0)
	vx.Config("oauth.tokenInvalid", true)
	kind := vx.Choice("token.kind", 4) // one kind of bad token per path, tried on every route
	for i := 0; i < vx.GinRoutes(); i++ {
		path := vx.GinRoutePath(i)
		vx.Assert("route lies under a protected service prefix",
			strings.HasPrefix(path, factory.ConvergedChargingResUriPrefix+"/") ||
				strings.HasPrefix(path, factory.OfflineOnlyChargingResUriPrefix+"/") ||
				strings.HasPrefix(path, factory.SpendingLimitControlResUriPrefix+"/"))
		// tokens: header absent, empty, not a bearer token, bearer token that does not verify
		hdr := http.Header{}
		switch kind {
		case 0:
		case 1:
			hdr["Authorization"] = []string{""}
		case 2:
			hdr["Authorization"] = []string{vx.String("garbage", 3)}
		default:
			hdr["Authorization"] = []string{"Bearer " + vx.String("token", 2)}
		}
		c := &gin.Context{Request: &http.Request{Header: hdr}}
		calls := vx.VerifyCalls()
		ran := vx.GinServe(i, c)
		if kind == 3 {
			// (an absent or malformed header may be rejected without verification)
			vx.Assert("a bearer token was verified", vx.VerifyCalls() == calls+1)
		}
		vx.Assert("unauthenticated request answered 401", vx.HTTPStatus(c) == 401)
		vx.Assert("no handler after the authorisation check ran", ran < vx.GinChainLen(i) && vx.HTTPWrites(c) == 1)
	}
}

// C11 (recharging route): any path parameter - with or without the '_'
// separator, with a non-numeric rating group - is answered without a panic.
//
//gosx:property=C11 tier=quick
func ZZ_C11_RechargePut() {
	ctx := chf_context.GetSelf()
	app := &zzApp{cfg: &factory.Config{Configuration: &factory.Configuration{}}, ctx: ctx, p: &processor.Processor{}}
	s := &Server{ServerChf: app}
	n := vx.Choice("len", 5)
	info := vx.String("rechargingInfo", n)
	c := &gin.Context{}
	vx.HTTPSetParam(c, "rechargingInfo", info)
	panicked := false
	func() {
		defer func() {
			if r := recover(); r != nil {
				panicked = true
				vx.Fail("recharge handler panicked")
			}
		}()
		s.RechargePut(c)
	}()
	if !panicked {
		st := vx.HTTPStatus(c)
		vx.Assert("recharge answered 2xx or 4xx", (st >= 200 && st <= 299) || (st >= 400 && st <= 499))
	}
}

// C12 (recharging route): PUT .../recharging/<supi>_<ratingGroup> for a known
// subscriber, the rating group written as 1..3 arbitrary decimal digits
// (leading zeros included): answered 204, exactly one notification, and it
// names the rating group whose decimal value was given.
//
//gosx:property=C12 tier=quick unwind=24
func ZZ_C12_RechargeRoute() {
	ctx := chf_context.GetSelf()
	ctx.RatingCfg = &sm.Settings{OriginHost: "chf-rating", OriginRealm: "realm"}
	ctx.AbmfCfg = &sm.Settings{OriginHost: "chf-abmf", OriginRealm: "realm"}
	factory.ChfConfig = &factory.Config{Configuration: &factory.Configuration{VolumeThresholdRate: 0.8}}
	const supi = "imsi-208930000000001"
	ue, err := ctx.NewCHFUe(supi)
	vx.Assert("subscriber context created", err == nil && ue != nil)
	if err != nil || ue == nil {
		return
	}
	ue.NotifyUri = "http://smf.example/notify"
	app := &zzApp{cfg: &factory.Config{Configuration: &factory.Configuration{}}, ctx: ctx, p: &processor.Processor{}}
	s := &Server{ServerChf: app}
	n := 1 + vx.Choice("digits", 3)
	d := vx.String("rg", n)
	want := int32(0)
	for i := 0; i < n; i++ {
		vx.Assume(d[i] >= '0' && d[i] <= '9')
		want = want*10 + int32(d[i]-'0')
	}
	c := &gin.Context{}
	vx.HTTPSetParam(c, "rechargingInfo", supi+"_"+d)
	n0 := vx.Notifications()
	s.RechargePut(c)
	vx.Assert("recharge for a known subscriber answered 204", vx.HTTPStatus(c) == 204)
	vx.Assert("exactly one notification", vx.Notifications() == n0+1)
	if vx.Notifications() != n0+1 {
		return
	}
	body, ok := vx.NotificationBody(n0).(*Nchf_ConvergedCharging.PostChargingNotificationRequest)
	vx.Assert("notification request recorded", ok && body != nil && body.ChargingNotifyRequest != nil)
	if ok && body != nil && body.ChargingNotifyRequest != nil {
		det := body.ChargingNotifyRequest.ReauthorizationDetails
		vx.Assert("the notification names the rating group given in the path", len(det) == 1 && det[0].RatingGroup == want)
	}
}

// C13 is stateless: after a request with a token that verifies has been
// served, a token that does not verify - same claims, other signature or
// algorithm, i.e. a forged copy - is still answered 401 on every route, and no
// handler behind the check runs. (The verification stub accepts exactly one
// designated Authorization header.)
//
//gosx:property=C13 tier=quick
func ZZ_C13_NoCreditForEarlierRequests() {
	ctx := chf_context.GetSelf()
	ctx.OAuth2Required = true
	ctx.NrfCertPem = "nrf.pem"
	list := []string{"nchf-convergedcharging", "nchf-offlineonlycharging", "nchf-spendinglimitcontrol"}
	app := &zzApp{cfg: &factory.Config{Configuration: &factory.Configuration{ServiceNameList: list}}, ctx: ctx, p: &processor.Processor{}}
	s := &Server{ServerChf: app}
	router := newRouter(s)
	vx.Assert("router created", router != nil)
	// header {"alg":"RS512","typ":"JWT"}, claims {"exp":4102444800} (year 2100)
	const claims = "eyJleHAiOjQxMDI0NDQ4MDB9"
	good := "Bearer eyJhbGciOiJSUzUxMiIsInR5cCI6IkpXVCJ9." + claims + ".Z29vZHNpZ25hdHVyZQ"
	forged := []string{
		"Bearer eyJhbGciOiJSUzUxMiIsInR5cCI6IkpXVCJ9." + claims + ".Zm9yZ2Vk",
		"Bearer eyJhbGciOiJIUzI1NiIsInR5cCI6IkpXVCJ9." + claims + ".Zm9yZ2Vk",
		"Bearer AAAA." + claims + ".BBBB",
	}[vx.Choice("forgery", 3)]
	vx.Register("oauth.goodToken", good)
	for i := 0; i < vx.GinRoutes(); i++ {
		// the genuine request: the check lets it pass (what the API handler
		// then does with an empty body is not the subject)
		c1 := &gin.Context{Request: &http.Request{Header: http.Header{"Authorization": []string{good}}}}
		func() {
			defer func() { _ = recover() }()
			vx.GinServe(i, c1)
		}()
		vx.Assert("a token that verifies is not answered 401", vx.HTTPStatus(c1) != 401)
		c2 := &gin.Context{Request: &http.Request{Header: http.Header{"Authorization": []string{forged}}}}
		ran := vx.GinServe(i, c2)
		vx.Assert("a forged copy of an accepted token is answered 401", vx.HTTPStatus(c2) == 401)
		vx.Assert("no handler after the authorisation check ran for the forged token", ran < vx.GinChainLen(i) && vx.HTTPWrites(c2) == 1)
	}
}

// ZZStartServer runs the real SBI server start-up code (Server.startServer,
// with the listener calls of net/http stubbed) on cfg and reports whether the
// server task crashed: startServer recovers a panic, logs it as fatal and
// terminates the application.
func ZZStartServer(cfg *factory.Config) (crashed bool) {
	app := &zzApp{cfg: cfg, ctx: chf_context.GetSelf(), p: &processor.Processor{}}
	s := &Server{ServerChf: app, httpServer: &http.Server{Addr: cfg.GetSbiBindingAddr()}}
	var wg sync.WaitGroup
	wg.Add(1)
	s.startServer(&wg)
	return app.terminated
}

// C12 through the API-layer handlers (path parameter and JSON body as the
// router hands them over): a session is created through the create handler;
// an update or release whose path parameter is NOT the session reference -
// an arbitrary string, or the reference with one character percent-encoded
// (an alias only for a handler that decodes the already decoded parameter) -
// is answered 4xx and changes no record; the same request with the real
// reference is answered 200 / 204.
//
//gosx:property=C12 tier=quick unwind=40 timeout=30000
func ZZ_C12_ApiLayerSessionReference() {
	ctx := chf_context.GetSelf()
	ctx.RatingCfg = &sm.Settings{OriginHost: "chf-rating", OriginRealm: "realm"}
	ctx.AbmfCfg = &sm.Settings{OriginHost: "chf-abmf", OriginRealm: "realm"}
	ctx.Name, ctx.NfId, ctx.Url = "chf", "chf-nf-id", "http://chf.example"
	factory.ChfConfig = &factory.Config{Configuration: &factory.Configuration{VolumeThresholdRate: 0.8,
		RfDiameter:   &factory.Diameter{Protocol: "tcp", HostIPv4: "127.0.0.1", Port: 3868, Tls: &factory.Tls{Pem: "rf.pem", Key: "rf.key"}},
		AbmfDiameter: &factory.Diameter{Protocol: "tcp", HostIPv4: "127.0.0.1", Port: 3869, Tls: &factory.Tls{Pem: "abmf.pem", Key: "abmf.key"}}}}
	app := &zzApp{cfg: factory.ChfConfig, ctx: ctx, p: &processor.Processor{}}
	s := &Server{ServerChf: app}
	const supi = "imsi-208930000000777"
	create := models.ChfConvergedChargingChargingDataRequest{SubscriberIdentifier: supi, ChargingId: 7,
		NotifyUri:                "http://smf.example/notify",
		NfConsumerIdentification: &models.ChfConvergedChargingNfIdentification{NFName: "SMF", NodeFunctionality: "SMF"}}
	c0 := &gin.Context{}
	vx.HTTPSetBody(c0, &create)
	s.ChargingdataPost(c0)
	vx.Assert("create through the API handler answered 201", vx.HTTPStatus(c0) == 201)
	loc := vx.HTTPHeader(c0, "Location")
	i := strings.LastIndex(loc, "/")
	if vx.HTTPStatus(c0) != 201 || i < 0 {
		return
	}
	ref := loc[i+1:]
	ue, found := ctx.ChfUeFindBySupi(supi)
	if !found {
		vx.Fail("subscriber context exists")
		return
	}
	usage := models.ChfConvergedChargingMultipleUnitUsage{RatingGroup: 1, UPFID: "upf",
		UsedUnitContainer: []models.ChfConvergedChargingUsedUnitContainer{{QuotaManagementIndicator: models.QuotaManagementIndicator_OFFLINE_CHARGING, TotalVolume: 5}}}
	req := models.ChfConvergedChargingChargingDataRequest{SubscriberIdentifier: supi,
		MultipleUnitUsage: []models.ChfConvergedChargingMultipleUnitUsage{usage}}
	// a path parameter that is not the reference
	var other string
	switch vx.Choice("other", 3) {
	case 0:
		other = vx.String("garbage", 3)
	case 1:
		other = "imsi%2D" + ref[5:] // '-' percent-encoded
	default:
		other = ref[:len(ref)-1] + "%3" + ref[len(ref)-1:] // last digit percent-encoded
	}
	vx.Assume(other != ref)
	before := vx.Snapshot(ue)
	c1 := &gin.Context{}
	vx.HTTPSetBody(c1, &req)
	vx.HTTPSetParam(c1, "ChargingDataRef", other)
	release := vx.Choice("op", 2) == 1
	if release {
		s.ChargingdataChargingDataRefReleasePost(c1)
	} else {
		s.ChargingdataChargingDataRefUpdatePost(c1)
	}
	st := vx.HTTPStatus(c1)
	vx.Assert("a request naming something else than the session reference is answered 4xx", st >= 400 && st <= 499)
	vx.Assert("and leaves the subscriber's records as they were", vx.SameAs(before, ue))
	// the real reference works
	c2 := &gin.Context{}
	vx.HTTPSetBody(c2, &req)
	vx.HTTPSetParam(c2, "ChargingDataRef", ref)
	if release {
		s.ChargingdataChargingDataRefReleasePost(c2)
		vx.Assert("release with the real reference answered 204", vx.HTTPStatus(c2) == 204)
	} else {
		s.ChargingdataChargingDataRefUpdatePost(c2)
		vx.Assert("update with the real reference answered 200", vx.HTTPStatus(c2) == 200)
	}
}
