package abmf

//gosx:file replay=engine

import (
	"strconv"

	"github.com/fiorix/go-diameter/diam"
	"github.com/fiorix/go-diameter/diam/datatype"

	charging_datatype "github.com/free5gc/chf/ccs_diameter/datatype"
	vx "github.com/free5gc/chf/zzvx"
)

// ZZHandleCCR exposes the real server handler to harnesses of other packages.
func ZZHandleCCR() diam.HandlerFunc { return handleCCR() }

// C07: one arbitrary credit-control request against an arbitrary two-account
// table. The server is stateless apart from the table, so this one step from
// an arbitrary table is the inductive step for every sequence of requests.
//
//gosx:property=C07 tier=quick unwind=40
func ZZ_C07_Step() {
	// two accounts with distinct keys, arbitrary balances (canonical decimal text)
	sub1, sub2 := vx.String("sub1", 2), vx.String("sub2", 2)
	rg1, rg2 := vx.Uint32("rg1"), vx.Uint32("rg2")
	vx.Assume(vx.Or(sub1 != sub2, rg1 != rg2))
	q1, q2 := vx.Int64("q1"), vx.Int64("q2")
	vx.DBPut("imsi-"+sub1, rg1, "quota", strconv.FormatInt(q1, 10))
	vx.DBPut("imsi-"+sub2, rg2, "quota", strconv.FormatInt(q2, 10))

	// The server uses one handler instance for all requests: an earlier
	// request (none, a reservation within the balance, or one that exhausts
	// it) on account 2 precedes the request under test.
	handler := handleCCR()
	conn, _ := vx.DiamConn().(diam.Conn)
	if prior := vx.Choice("prior", 3); prior > 0 {
		vx.Assume(q2 >= 0)
		vx.Assume(q2 < 1<<62)
		pa := vx.Uint64("prior.amount")
		vx.Assume(pa < 1<<62)
		if prior == 1 {
			vx.Assume(int64(pa) <= q2)
		} else {
			vx.Assume(int64(pa) > q2)
		}
		var first charging_datatype.AccountDebitRequest
		first.CcRequestType = charging_datatype.UPDATE_REQUEST
		first.RequestedAction = charging_datatype.DIRECT_DEBITING
		first.SubscriptionId = &charging_datatype.SubscriptionId{SubscriptionIdType: charging_datatype.END_USER_IMSI, SubscriptionIdData: datatype.UTF8String(sub2)}
		first.MultipleServicesCreditControl = &charging_datatype.MultipleServicesCreditControl{RatingGroup: datatype.Unsigned32(rg2),
			RequestedServiceUnit: &charging_datatype.RequestedServiceUnit{CCTotalOctets: datatype.Unsigned64(pa)}}
		m0 := diam.NewRequest(272, 4, nil)
		vx.Assert("prior request marshals", m0.Marshal(&first) == nil)
		handler(conn, m0)
		// the table state the request under test starts from
		s2, _ := vx.DBGet("imsi-"+sub2, rg2, "quota")
		q2, _ = strconv.ParseInt(s2, 10, 64)
	}

	// the request
	var ccr charging_datatype.AccountDebitRequest
	ccr.SessionId = datatype.UTF8String(vx.String("session", 2))
	ccr.CcRequestNumber = datatype.Unsigned32(vx.Uint32("reqnum"))
	ccr.CcRequestType = charging_datatype.CcRequestType(vx.Int32("reqtype"))
	ccr.RequestedAction = charging_datatype.RequestedAction(vx.Int32("action"))
	target := vx.Choice("target", 3) // 0: account 1, 1: account 2, 2: unknown subscriber/group
	known := target < 2
	idType := charging_datatype.END_USER_IMSI
	var data string
	var rg uint32
	switch target {
	case 0:
		data, rg = sub1, rg1
	case 1:
		data, rg = sub2, rg2
	default:
		data, rg = vx.String("subX", 2), vx.Uint32("rgX")
		if vx.Choice("unknownkind", 2) == 0 {
			vx.Assume(vx.Or(data != sub1, rg != rg1))
			vx.Assume(vx.Or(data != sub2, rg != rg2))
		} else {
			idType = charging_datatype.END_USER_NAI // not an IMSI: no such account
		}
	}
	ccr.SubscriptionId = &charging_datatype.SubscriptionId{SubscriptionIdType: idType, SubscriptionIdData: datatype.UTF8String(data)}
	mscc := &charging_datatype.MultipleServicesCreditControl{RatingGroup: datatype.Unsigned32(rg)}
	amount := vx.Uint64("amount")
	vx.Assume(amount < 1<<63)
	// the grouped AVP that is mandatory for the action is present; the other
	// one is present or absent
	hasReq := vx.Choice("requestedUnit", 2) == 1
	hasUsed := vx.Choice("usedUnit", 2) == 1
	// every other scalar member of the request is arbitrary too: the server's
	// decisions depend on CC-Total-Octets of the relevant group only
	mscc.ServiceIdentifier = datatype.Unsigned32(vx.Uint32("in.serviceIdentifier"))
	mscc.ValidityTime = datatype.Unsigned32(vx.Uint32("in.validityTime"))
	mscc.ResultCode = datatype.Unsigned32(vx.Uint32("in.resultCode"))
	if hasReq {
		mscc.RequestedServiceUnit = &charging_datatype.RequestedServiceUnit{CCTotalOctets: datatype.Unsigned64(amount),
			CCTime: datatype.Unsigned32(vx.Uint32("in.req.time")), CCInputOctets: datatype.Unsigned64(vx.Uint64("in.req.input")),
			CCOutputOctets: datatype.Unsigned64(vx.Uint64("in.req.output")), CCServiceSpecificUnits: datatype.Unsigned64(vx.Uint64("in.req.ssu"))}
	}
	// the two groups carry independent amounts (an interim update reports usage
	// and asks for more in one request): reservation and refund act on the
	// requested amount, the termination debit on the used amount
	usedAmount := vx.Uint64("usedAmount")
	vx.Assume(usedAmount < 1<<63)
	if hasUsed {
		mscc.UsedServiceUnit = &charging_datatype.UsedServiceUnit{CCTotalOctets: datatype.Unsigned64(usedAmount),
			CCInputOctets: datatype.Unsigned64(vx.Uint64("in.used.input")), CCOutputOctets: datatype.Unsigned64(vx.Uint64("in.used.output"))}
	}
	ccr.MultipleServicesCreditControl = mscc
	isReserve := ccr.RequestedAction == charging_datatype.DIRECT_DEBITING &&
		(ccr.CcRequestType == charging_datatype.INITIAL_REQUEST || ccr.CcRequestType == charging_datatype.UPDATE_REQUEST)
	isRefund := ccr.RequestedAction == charging_datatype.REFUND_ACCOUNT
	isFinalDebit := ccr.RequestedAction == charging_datatype.DIRECT_DEBITING && ccr.CcRequestType == charging_datatype.TERMINATION_REQUEST
	if isReserve || isRefund {
		vx.Assume(hasReq)
	}
	if isFinalDebit {
		vx.Assume(hasUsed)
	}

	msg := diam.NewRequest(272, 4, nil)
	vx.Assert("request marshals", msg.Marshal(&ccr) == nil)
	handler(conn, msg)

	var cca charging_datatype.AccountDebitResponse
	answered := vx.LastAnswer(&cca)
	n1s, _ := vx.DBGet("imsi-"+sub1, rg1, "quota")
	n2s, _ := vx.DBGet("imsi-"+sub2, rg2, "quota")
	n1, e1 := strconv.ParseInt(n1s, 10, 64)
	n2, e2 := strconv.ParseInt(n2s, 10, 64)
	vx.Assert("stored balances stay canonical integers", e1 == nil && e2 == nil)

	if !known {
		vx.Assert("unknown subscriber/group: no balance changes", n1 == q1 && n2 == q2)
		return
	}
	// the addressed account and the other one
	old, now, otherOld, otherNow := q1, n1, q2, n2
	if target == 1 {
		old, now, otherOld, otherNow = q2, n2, q1, n1
	}
	vx.Assert("the other account is unchanged", otherNow == otherOld)
	vx.Assert("a request for a known account is answered", answered)
	if answered {
		vx.Assert("answer echoes Session-Id", cca.SessionId == ccr.SessionId)
		vx.Assert("answer echoes CC-Request-Type", cca.CcRequestType == ccr.CcRequestType)
		vx.Assert("answer echoes CC-Request-Number", cca.CcRequestNumber == ccr.CcRequestNumber)
	}
	amt := int64(amount)
	switch {
	case isReserve:
		// grants are only defined for non-negative balances
		vx.Assume(old >= 0)
		want := amt
		if amt > old {
			want = old
		}
		vx.Assert("stored balance lowered by exactly the grant", now == old-want)
		vx.Assert("stored balance not negative", now >= 0)
		if answered {
			m := cca.MultipleServicesCreditControl
			vx.Assert("answer carries the grant", m != nil && m.GrantedServiceUnit != nil)
			if m != nil && m.GrantedServiceUnit != nil {
				vx.Assert("granted = min(requested, balance)", int64(m.GrantedServiceUnit.CCTotalOctets) == want)
				vx.Assert("final-unit indication exactly when the request exceeds the balance", (m.FinalUnitIndication != nil) == (amt > old))
				if m.FinalUnitIndication != nil {
					vx.Assert("final unit action TERMINATE", m.FinalUnitIndication.FinalUnitAction == charging_datatype.TERMINATE)
				}
			}
		}
	case isRefund:
		// representable results only (int64 wrap-around is outside the claim)
		vx.Assume(old <= (1<<63-1)-amt)
		vx.Assert("refund raises the balance by exactly the amount", now == old+amt)
	case isFinalDebit:
		uamt := int64(usedAmount)
		vx.Assume(old >= -(1<<63-1)+uamt)
		vx.Assert("termination debit lowers the balance by exactly the used amount", now == old-uamt)
	default:
		vx.Assert("other actions/types leave the balance unchanged", now == old)
	}
}
