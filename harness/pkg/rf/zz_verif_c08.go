package rf

//gosx:file replay=engine

import (
	"strconv"

	"github.com/fiorix/go-diameter/diam"
	"github.com/fiorix/go-diameter/diam/datatype"

	charging_datatype "github.com/free5gc/chf/ccs_diameter/datatype"
	vx "github.com/free5gc/chf/zzvx"
)

// ZZHandleSUR exposes the real server handler to harnesses of other packages.
func ZZHandleSUR() diam.HandlerFunc { return handleSUR() }

// zzCost returns a stored unit-cost string: (a) the canonical decimal text of
// ANY int64 (0, negative, values >= 2^32 included), or (b) an arbitrary byte
// string of 0..maxAny characters (leading zeros, decimal fractions, malformed
// text). isInt/value describe integer strings.
func zzCost() (s string, isInt bool, value int64) {
	maxAny := vx.Param("maxany", 3)
	k := vx.Choice("costshape", maxAny+2)
	if k == 0 {
		s = vx.DecString("cost")
		v, _ := strconv.ParseInt(s, 10, 64)
		return s, true, v
	}
	// arbitrary text: exact pricing is not asserted for this shape (the solvers
	// do not decide the digit-string arithmetic within the time limit); the
	// server must still answer and must not crash
	return vx.String("cost", k-1), false, 0
}

// C08 (server side): for every stored unit-cost string the rating server
// answers; for integer costs it prices exactly.
//
//gosx:property=C08 tier=quick unwind=40 p.maxany=3 p.maxany.thorough=5 timeout=30000
func ZZ_C08_Server() {
	cost, isInt, cval := zzCost()
	rg := vx.Uint32("rg")
	vx.DBPut("imsi-ab", rg, "unitCost", cost)

	var sur charging_datatype.ServiceUsageRequest
	sur.SessionId = datatype.UTF8String(vx.String("session", 2))
	sur.SubscriptionId = &charging_datatype.SubscriptionId{SubscriptionIdType: charging_datatype.END_USER_IMSI, SubscriptionIdData: "ab"}
	consumed := vx.Uint32("consumed")
	quota := vx.Uint32("quota")
	sub := charging_datatype.RequestSubType(vx.Int32("subtype"))
	sur.ServiceRating = &charging_datatype.ServiceRating{
		ServiceIdentifier: datatype.Unsigned32(rg),
		RequestSubType:    sub,
		ConsumedUnits:     datatype.Unsigned32(consumed),
		MonetaryQuota:     datatype.Unsigned32(quota),
		// every other scalar member of the request is arbitrary as well: the
		// price and the allowed units are functions of sub-type, consumed
		// units, quota and stored unit cost only
		Price:                          datatype.Unsigned32(vx.Uint32("in.price")),
		RequestedUnits:                 datatype.Unsigned32(vx.Uint32("in.requestedUnits")),
		ConsumedUnitsAfterTariffSwitch: datatype.Unsigned32(vx.Uint32("in.consumedAfterSwitch")),
		TariffSwitchTime:               datatype.Unsigned32(vx.Uint32("in.tariffSwitchTime")),
		ValidUnits:                     datatype.Unsigned32(vx.Uint32("in.validUnits")),
		MinimalRequestedUnits:          datatype.Unsigned32(vx.Uint32("in.minimalRequestedUnits")),
		AllowedUnits:                   datatype.Unsigned32(vx.Uint32("in.allowedUnits")),
	}
	msg := diam.NewRequest(111, 16777218, nil)
	vx.Assert("request marshals", msg.Marshal(&sur) == nil)
	conn, _ := vx.DiamConn().(diam.Conn)
	handleSUR()(conn, msg)

	var sua charging_datatype.ServiceUsageResponse
	answered := vx.LastAnswer(&sua)
	vx.Assert("the server answers for every stored unit cost", answered)
	if !answered {
		return
	}
	vx.Assert("answer echoes Session-Id", sua.SessionId == sur.SessionId)
	sr := sua.ServiceRating
	vx.Assert("answer carries a rating with a tariff", sr != nil && sr.MonetaryTariff != nil && sr.MonetaryTariff.RateElement != nil && sr.MonetaryTariff.RateElement.UnitCost != nil)
	if sr == nil || !isInt {
		return
	}
	if cval <= 0 || cval >= 1<<32 {
		return // exact pricing is claimed for unit costs representable in the Unsigned32 AVPs
	}
	c := uint64(cval)
	switch sub {
	case charging_datatype.REQ_SUBTYPE_DEBIT:
		vx.Assume(uint64(consumed)*c < 1<<32)
		vx.Assert("debit: price = consumed units x unit cost", uint64(sr.Price) == uint64(consumed)*c)
	case charging_datatype.REQ_SUBTYPE_RESERVE:
		a := uint64(sr.AllowedUnits)
		// floor(quota / c) stated without division: a*c <= quota < (a+1)*c
		vx.Assert("reserve: allowed units = floor(quota / unit cost)", vx.And(a*c <= uint64(quota), uint64(quota) < (a+1)*c))
		vx.Assert("reserve: price = allowed units x unit cost", uint64(sr.Price) == a*c)
		vx.Assert("reserve: price <= monetary quota", uint64(sr.Price) <= uint64(quota))
	}
	uc := sr.MonetaryTariff.RateElement.UnitCost
	vx.Assert("tariff digits/exponent denote the unit cost", uc.Exponent == 0 && uint64(uc.ValueDigits) == c)
}

// C08 (requests in flight together): two rating requests for different
// subscribers/rating groups with different unit costs are served by the same
// handler concurrently (every interleaving at the handler's I/O points:
// database read, answer encode, socket write, within the switch budget); each
// answer carries the tariff and price of its own request.
//
//gosx:property=C08 tier=quick unwind=40 p.preempt=2 p.preempt.thorough=4 timeout=30000
func ZZ_C08_ConcurrentRequests() {
	vx.Config("sched.ioYield", true)
	costStr := [2]string{vx.DecString("costA"), vx.DecString("costB")}
	var costs [2]int64
	costs[0], _ = strconv.ParseInt(costStr[0], 10, 64)
	costs[1], _ = strconv.ParseInt(costStr[1], 10, 64)
	vx.Assume(costs[0] >= 1 && costs[0] <= 1000 && costs[1] >= 1 && costs[1] <= 1000 && costs[0] != costs[1])
	subs := [2]string{"ab", "cd"}
	consumed := [2]uint32{vx.Uint32("consumedA"), vx.Uint32("consumedB")}
	vx.Assume(consumed[0] <= 1000 && consumed[1] <= 1000)
	var msgs [2]*diam.Message
	var surs [2]charging_datatype.ServiceUsageRequest
	for i := 0; i < 2; i++ {
		vx.DBPut("imsi-"+subs[i], uint32(i+1), "unitCost", costStr[i])
		surs[i].SessionId = datatype.UTF8String("s" + subs[i])
		surs[i].SubscriptionId = &charging_datatype.SubscriptionId{SubscriptionIdType: charging_datatype.END_USER_IMSI, SubscriptionIdData: datatype.UTF8String(subs[i])}
		surs[i].ServiceRating = &charging_datatype.ServiceRating{
			ServiceIdentifier: datatype.Unsigned32(i + 1),
			RequestSubType:    charging_datatype.REQ_SUBTYPE_DEBIT,
			ConsumedUnits:     datatype.Unsigned32(consumed[i]),
		}
		msgs[i] = diam.NewRequest(111, 16777218, nil)
		vx.Assert("request marshals", msgs[i].Marshal(&surs[i]) == nil)
	}
	conn, _ := vx.DiamConn().(diam.Conn)
	h := handleSUR()
	vx.Parallel(func() { h(conn, msgs[0]) }, func() { h(conn, msgs[1]) })
	for i := 0; i < 2; i++ {
		var sua charging_datatype.ServiceUsageResponse
		ok := vx.AnswerTo(msgs[i], &sua)
		vx.Assert("each request in flight is answered", ok)
		if !ok || sua.ServiceRating == nil || sua.ServiceRating.MonetaryTariff == nil ||
			sua.ServiceRating.MonetaryTariff.RateElement == nil || sua.ServiceRating.MonetaryTariff.RateElement.UnitCost == nil {
			vx.Assert("answer carries a rating with a tariff", !ok)
			continue
		}
		vx.Assert("answer echoes its own Session-Id", sua.SessionId == surs[i].SessionId)
		uc := sua.ServiceRating.MonetaryTariff.RateElement.UnitCost
		vx.Assert("tariff of the answer is the unit cost of its own request", uc.Exponent == 0 && uint64(uc.ValueDigits) == uint64(costs[i]))
		vx.Assert("price of the answer = own consumed units x own unit cost", uint64(sua.ServiceRating.Price) == uint64(consumed[i])*uint64(costs[i]))
	}
}

// C08 over a sequence of requests through one handler instance: a request is
// priced from its own members only. The second request leaves out an optional
// AVP (Consumed-Units in a debit, Monetary-Quota in a reservation: absent
// means 0) after a first request that carried it: nothing of the first
// request shows in the second answer.
//
//gosx:property=C08 tier=quick unwind=40 timeout=30000
func ZZ_C08_RequestSequence() {
	costStr := vx.DecString("cost")
	cost, _ := strconv.ParseInt(costStr, 10, 64)
	vx.Assume(cost >= 1 && cost <= 1000)
	vx.DBPut("imsi-ab", 1, "unitCost", costStr)
	h := handleSUR()
	conn, _ := vx.DiamConn().(diam.Conn)
	mk := func(sub charging_datatype.RequestSubType, consumed, quota uint32) (*diam.Message, *charging_datatype.ServiceUsageRequest) {
		var sur charging_datatype.ServiceUsageRequest
		sur.SessionId = "s"
		sur.SubscriptionId = &charging_datatype.SubscriptionId{SubscriptionIdType: charging_datatype.END_USER_IMSI, SubscriptionIdData: "ab"}
		sur.ServiceRating = &charging_datatype.ServiceRating{ServiceIdentifier: 1, RequestSubType: sub,
			ConsumedUnits: datatype.Unsigned32(consumed), MonetaryQuota: datatype.Unsigned32(quota)}
		msg := diam.NewRequest(111, 16777218, nil)
		vx.Assert("request marshals", msg.Marshal(&sur) == nil)
		return msg, &sur
	}
	sub := charging_datatype.REQ_SUBTYPE_DEBIT
	if vx.Choice("subtype", 2) == 1 {
		sub = charging_datatype.REQ_SUBTYPE_RESERVE
	}
	first := vx.Uint32("first")
	vx.Assume(first >= 1 && first <= 100000)
	m1, _ := mk(sub, first, first)
	h(conn, m1)
	m2, _ := mk(sub, 0, 0)
	if sub == charging_datatype.REQ_SUBTYPE_DEBIT {
		vx.OmitAVP(m2, "ServiceRating.ConsumedUnits")
	} else {
		vx.OmitAVP(m2, "ServiceRating.MonetaryQuota")
	}
	h(conn, m2)
	var sua charging_datatype.ServiceUsageResponse
	ok := vx.AnswerTo(m2, &sua)
	vx.Assert("the second request is answered", ok)
	if ok && sua.ServiceRating != nil {
		vx.Assert("a request without consumed units / quota is priced 0", sua.ServiceRating.Price == 0 && sua.ServiceRating.AllowedUnits == 0)
	}
}
