package rf

//gosx:file replay=engine

import (
	"strconv"

	"github.com/fiorix/go-diameter/diam"
	"github.com/fiorix/go-diameter/diam/datatype"

	charging_datatype "github.com/free5gc/chf/ccs_diameter/datatype"
	vx "github.com/free5gc/chf/zzvx"
)

// ZZHandleSUR exposes the real server handler to harnesses of other packages.
func ZZHandleSUR() diam.HandlerFunc { return handleSUR() }

// zzCost returns a stored unit-cost string: (a) the canonical decimal text of
// ANY int64 (0, negative, values >= 2^32 included), or (b) an arbitrary byte
// string of 0..maxAny characters (leading zeros, decimal fractions, malformed
// text). isInt/value describe integer strings.
func zzCost() (s string, isInt bool, value int64) {
	maxAny := vx.Param("maxany", 3)
	k := vx.Choice("costshape", maxAny+2)
	if k == 0 {
		s = vx.DecString("cost")
		v, _ := strconv.ParseInt(s, 10, 64)
		return s, true, v
	}
	// arbitrary text: exact pricing is not asserted for this shape (the solvers
	// do not decide the digit-string arithmetic within the time limit); the
	// server must still answer and must not crash
	return vx.String("cost", k-1), false, 0
}

// C08 (server side): for every stored unit-cost string the rating server
// answers; for integer costs it prices exactly.
//
//gosx:property=C08 tier=quick unwind=40 p.maxany=3 p.maxany.thorough=5 timeout=30000
func ZZ_C08_Server() {
	cost, isInt, cval := zzCost()
	rg := vx.Uint32("rg")
	vx.DBPut("imsi-ab", rg, "unitCost", cost)

	var sur charging_datatype.ServiceUsageRequest
	sur.SessionId = datatype.UTF8String(vx.String("session", 2))
	sur.SubscriptionId = &charging_datatype.SubscriptionId{SubscriptionIdType: charging_datatype.END_USER_IMSI, SubscriptionIdData: "ab"}
	consumed := vx.Uint32("consumed")
	quota := vx.Uint32("quota")
	sub := charging_datatype.RequestSubType(vx.Int32("subtype"))
	sur.ServiceRating = &charging_datatype.ServiceRating{
		ServiceIdentifier: datatype.Unsigned32(rg),
		RequestSubType:    sub,
		ConsumedUnits:     datatype.Unsigned32(consumed),
		MonetaryQuota:     datatype.Unsigned32(quota),
	}
	msg := diam.NewRequest(111, 16777218, nil)
	vx.Assert("request marshals", msg.Marshal(&sur) == nil)
	conn, _ := vx.DiamConn().(diam.Conn)
	handleSUR()(conn, msg)

	var sua charging_datatype.ServiceUsageResponse
	answered := vx.LastAnswer(&sua)
	vx.Assert("the server answers for every stored unit cost", answered)
	if !answered {
		return
	}
	vx.Assert("answer echoes Session-Id", sua.SessionId == sur.SessionId)
	sr := sua.ServiceRating
	vx.Assert("answer carries a rating with a tariff", sr != nil && sr.MonetaryTariff != nil && sr.MonetaryTariff.RateElement != nil && sr.MonetaryTariff.RateElement.UnitCost != nil)
	if sr == nil || !isInt {
		return
	}
	if cval <= 0 || cval >= 1<<32 {
		return // exact pricing is claimed for unit costs representable in the Unsigned32 AVPs
	}
	c := uint64(cval)
	switch sub {
	case charging_datatype.REQ_SUBTYPE_DEBIT:
		vx.Assume(uint64(consumed)*c < 1<<32)
		vx.Assert("debit: price = consumed units x unit cost", uint64(sr.Price) == uint64(consumed)*c)
	case charging_datatype.REQ_SUBTYPE_RESERVE:
		a := uint64(sr.AllowedUnits)
		// floor(quota / c) stated without division: a*c <= quota < (a+1)*c
		vx.Assert("reserve: allowed units = floor(quota / unit cost)", vx.And(a*c <= uint64(quota), uint64(quota) < (a+1)*c))
		vx.Assert("reserve: price = allowed units x unit cost", uint64(sr.Price) == a*c)
		vx.Assert("reserve: price <= monetary quota", uint64(sr.Price) <= uint64(quota))
	}
	uc := sr.MonetaryTariff.RateElement.UnitCost
	vx.Assert("tariff digits/exponent denote the unit cost", uc.Exponent == 0 && uint64(uc.ValueDigits) == c)
}
