package cdrFile

//gosx:file init=github.com/free5gc/chf/cdr/cdrFile

import (
	"os"

	vx "github.com/free5gc/chf/zzvx"
)

// ---------------------------------------------------------------------------
// C14 / C15: CDR file codec. Every header field is symbolic within its
// TS 32.297 bit width; routeing filter / private extension / record payload
// lengths are forked over boundary values (incl. 65485/65486/65535: the
// 16-bit offset arithmetic of the reader); contents are symbolic bytes.
// ---------------------------------------------------------------------------

func zzBits(label string, bits uint) uint8 {
	v := vx.Uint8(label)
	vx.Assume(v < 1<<bits)
	return v
}

func zzTimeStamp(l string) CdrHdrTimeStamp {
	return CdrHdrTimeStamp{
		MonthLocal:                            zzBits(l+".month", 4),
		DateLocal:                             zzBits(l+".date", 5),
		HourLocal:                             zzBits(l+".hour", 5),
		MinuteLocal:                           zzBits(l+".minute", 6),
		SignOfTheLocalTimeDifferentialFromUtc: zzBits(l+".sign", 1),
		HourDeviation:                         zzBits(l+".hdev", 5),
		MinuteDeviation:                       zzBits(l+".mdev", 6),
	}
}

var zzFilterLens = []int{0, 1, 3, 65485, 65486, 65535}
var zzExtLens = []int{0, 65535, 2}
var zzPayloadLens = []int{0, 65535, 1, 4}

func zzBlob(label string, n int) []byte {
	if n > 64 {
		// long blobs: first and last bytes symbolic, the rest a fixed pattern
		b := make([]byte, n)
		for i := range b {
			b[i] = byte(i)
		}
		b[0] = vx.Byte(label + ".first")
		b[n-1] = vx.Byte(label + ".last")
		return b
	}
	return vx.Bytes(label, n)
}

// zzFile builds an arbitrary well-formed CDR file structure.
func zzFile() CDRFile {
	var f CDRFile
	h := &f.Hdr
	h.HighReleaseIdentifier = zzBits("hrel", 3)
	h.HighVersionIdentifier = zzBits("hver", 5)
	h.LowReleaseIdentifier = zzBits("lrel", 3)
	h.LowVersionIdentifier = zzBits("lver", 5)
	h.FileOpeningTimestamp = zzTimeStamp("open")
	h.TimestampWhenLastCdrWasAppendedToFIle = zzTimeStamp("last")
	h.FileSequenceNumber = vx.Uint32("seq")
	h.FileClosureTriggerReason = FileClosureTriggerReasonType(vx.Uint8("reason"))
	copy(h.IpAddressOfNodeThatGeneratedFile[:], vx.Bytes("ip", 20))
	h.LostCdrIndicator = vx.Uint8("lost")
	var fl int
	if vx.Param("nshards", 1) > 1 {
		fl = zzFilterLens[vx.Param("shard", 0)] // one filter length per shard
	} else {
		fl = zzFilterLens[vx.Choice("filterlen", vx.Param("filterlens", len(zzFilterLens)))]
	}
	el := zzExtLens[vx.Choice("extlen", vx.Param("extlens", len(zzExtLens)))]
	h.LengthOfCdrRouteingFilter = uint16(fl)
	h.CDRRouteingFilter = zzBlob("filter", fl)
	h.LengthOfPrivateExtension = uint16(el)
	h.PrivateExtension = zzBlob("ext", el)
	hl := 52 + fl + el
	// the extension octets exist only for release identifier 7
	if h.HighReleaseIdentifier == 7 {
		h.HighReleaseIdentifierExtension = vx.Uint8("hrelext")
		hl++
	}
	if h.LowReleaseIdentifier == 7 {
		h.LowReleaseIdentifierExtension = vx.Uint8("lrelext")
		hl++
	}
	h.HeaderLength = uint32(hl)
	total := hl
	n := vx.Choice("nrec", vx.Param("maxrec", 2)+1)
	for i := 0; i < n; i++ {
		l := "rec" + string(rune('0'+i))
		var c CDR
		pl := zzPayloadLens[vx.Choice(l+".len", vx.Param("payloadlens", len(zzPayloadLens)))]
		c.CdrByte = zzBlob(l+".payload", pl)
		c.Hdr.CdrLength = uint16(pl)
		c.Hdr.ReleaseIdentifier = ReleaseIdentifierType(zzBits(l+".rel", 3))
		c.Hdr.VersionIdentifier = zzBits(l+".ver", 5)
		c.Hdr.DataRecordFormat = DataRecordFormatType(zzBits(l+".fmt", 3))
		c.Hdr.TsNumber = TsNumberIdentifier(zzBits(l+".ts", 5))
		total += 4 + pl
		if c.Hdr.ReleaseIdentifier == 7 {
			c.Hdr.ReleaseIdentifierExtension = vx.Uint8(l + ".relext")
			total++
		}
		f.CdrList = append(f.CdrList, c)
	}
	h.NumberOfCdrsInFile = uint32(n)
	h.FileLength = uint32(total)
	return f
}

// C14: Decoding(Encoding(f)) == f.
//
//gosx:property=C14 tier=quick shards=6 p.maxrec=2 p.maxrec.thorough=3 p.extlens=2 p.extlens.thorough=3 p.payloadlens=2 p.payloadlens.thorough=4 maxseconds.thorough=7200
func ZZ_C14_RoundTrip() {
	f := zzFile()
	f.Encoding("/tmp/zz_c14.cdr")
	var g CDRFile
	g.Decoding("/tmp/zz_c14.cdr")
	vx.Assert("header round trip", vx.Equal(f.Hdr, g.Hdr))
	vx.Assert("record count round trip", len(f.CdrList) == len(g.CdrList))
	if len(f.CdrList) == len(g.CdrList) {
		for i := range f.CdrList {
			vx.Assert("record header round trip", vx.Equal(f.CdrList[i].Hdr, g.CdrList[i].Hdr))
			vx.Assert("record payload round trip", vx.BytesEq(f.CdrList[i].CdrByte, g.CdrList[i].CdrByte))
		}
	}
}

// ---- C15: an independent reader written from TS 32.297 clause 6.1 ----

type zzRefTS struct{ month, date, hour, minute, sign, hdev, mdev uint8 }

type zzRefRec struct {
	length       int
	rel, ver     uint8
	format, ts   uint8
	relExt       uint8
	payloadStart int
}

type zzRefFile struct {
	fileLen, hdrLen   uint32
	hrel, hver        uint8
	lrel, lver        uint8
	open, last        zzRefTS
	ncdr, seq         uint32
	reason            uint8
	ipStart           int
	lost              uint8
	filterLen, extLen int
	filterStart       int
	extStart          int
	hrelExt, lrelExt  uint8
	recs              []zzRefRec
	ok                bool
	end               int
}

func zzU32(d []byte, o int) uint32 {
	return uint32(d[o])<<24 | uint32(d[o+1])<<16 | uint32(d[o+2])<<8 | uint32(d[o+3])
}

func zzU16(d []byte, o int) int { return int(d[o])<<8 | int(d[o+1]) }

func zzTS(d []byte, o int) zzRefTS {
	w := zzU32(d, o)
	// bits 32..29 month, 28..24 date, 23..19 hour, 18..13 minute, 12 sign,
	// 11..7 hour deviation, 6..1 minute deviation
	return zzRefTS{
		month: uint8(w >> 28), date: uint8(w >> 23 & 31), hour: uint8(w >> 18 & 31), minute: uint8(w >> 12 & 63),
		sign: uint8(w >> 11 & 1), hdev: uint8(w >> 6 & 31), mdev: uint8(w & 63),
	}
}

// zzRefRead parses d (plain int offsets, nothing shared with Decoding).
func zzRefRead(d []byte) zzRefFile {
	var r zzRefFile
	if len(d) < 52 {
		return r
	}
	r.fileLen = zzU32(d, 0)
	r.hdrLen = zzU32(d, 4)
	r.hrel, r.hver = d[8]>>5, d[8]&31
	r.lrel, r.lver = d[9]>>5, d[9]&31
	r.open = zzTS(d, 10)
	r.last = zzTS(d, 14)
	r.ncdr = zzU32(d, 18)
	r.seq = zzU32(d, 22)
	r.reason = d[26]
	r.ipStart = 27
	r.lost = d[47]
	r.filterLen = zzU16(d, 48)
	r.filterStart = 50
	p := 50 + r.filterLen
	if p+2 > len(d) {
		return r
	}
	r.extLen = zzU16(d, p)
	r.extStart = p + 2
	p = p + 2 + r.extLen
	if r.hrel == 7 {
		if p >= len(d) {
			return r
		}
		r.hrelExt = d[p]
		p++
	}
	if r.lrel == 7 {
		if p >= len(d) {
			return r
		}
		r.lrelExt = d[p]
		p++
	}
	if p != int(r.hdrLen) {
		return r
	}
	for i := 0; i < int(r.ncdr); i++ {
		if p+4 > len(d) {
			return r
		}
		var c zzRefRec
		c.length = zzU16(d, p)
		c.rel, c.ver = d[p+2]>>5, d[p+2]&31
		c.format, c.ts = d[p+3]>>5, d[p+3]&31
		p += 4
		if c.rel == 7 {
			if p >= len(d) {
				return r
			}
			c.relExt = d[p]
			p++
		}
		c.payloadStart = p
		p += c.length
		if p > len(d) {
			return r
		}
		r.recs = append(r.recs, c)
	}
	r.end = p
	r.ok = true
	return r
}

func zzTSEq(a zzRefTS, b CdrHdrTimeStamp) bool {
	return vx.And(vx.And(vx.And(a.month == b.MonthLocal, a.date == b.DateLocal), vx.And(a.hour == b.HourLocal, a.minute == b.MinuteLocal)),
		vx.And(a.sign == b.SignOfTheLocalTimeDifferentialFromUtc, vx.And(a.hdev == b.HourDeviation, a.mdev == b.MinuteDeviation)))
}

// C15: the bytes written follow the TS 32.297 layout.
//
//gosx:property=C15 tier=quick shards=6 p.maxrec=2 p.maxrec.thorough=3 p.extlens=2 p.extlens.thorough=3 p.payloadlens=2 p.payloadlens.thorough=4 maxseconds.thorough=7200
func ZZ_C15_Layout() {
	f := zzFile()
	// (one shard explores the rewrite, for files of up to two records)
	if vx.Param("shard", 0) == 0 && len(f.CdrList) <= 2 && vx.Choice("pathAlreadyHoldsALongerFile", 2) == 1 {
		// the CHF rewrites one file per subscriber: the path may hold an older,
		// longer file (here: the same content plus 8 more octets)
		f.Encoding("/tmp/zz_c15.cdr")
		d0, _ := os.ReadFile("/tmp/zz_c15.cdr")
		older := append(append([]byte{}, d0...), 1, 2, 3, 4, 5, 6, 7, 8)
		vx.Assert("older file in place", os.WriteFile("/tmp/zz_c15.cdr", older, 0o666) == nil)
	}
	f.Encoding("/tmp/zz_c15.cdr")
	d, err := os.ReadFile("/tmp/zz_c15.cdr")
	vx.Assert("file written", err == nil)
	r := zzRefRead(d)
	vx.Assert("reference reader parses the file completely", r.ok)
	if !r.ok {
		return
	}
	h := f.Hdr
	vx.Assert("file ends after the last record", r.end == len(d))
	vx.Assert("file length field", r.fileLen == h.FileLength && int(r.fileLen) == len(d))
	vx.Assert("header length field", r.hdrLen == h.HeaderLength)
	vx.Assert("release/version identifiers", vx.And(vx.And(r.hrel == h.HighReleaseIdentifier, r.hver == h.HighVersionIdentifier), vx.And(r.lrel == h.LowReleaseIdentifier, r.lver == h.LowVersionIdentifier)))
	vx.Assert("file opening timestamp", zzTSEq(r.open, h.FileOpeningTimestamp))
	vx.Assert("last CDR append timestamp", zzTSEq(r.last, h.TimestampWhenLastCdrWasAppendedToFIle))
	vx.Assert("counters", vx.And(r.ncdr == h.NumberOfCdrsInFile, r.seq == h.FileSequenceNumber))
	vx.Assert("closure reason and lost indicator", vx.And(r.reason == uint8(h.FileClosureTriggerReason), r.lost == h.LostCdrIndicator))
	vx.Assert("node address", vx.BytesEq(d[r.ipStart:r.ipStart+20], h.IpAddressOfNodeThatGeneratedFile[:]))
	vx.Assert("routeing filter", r.filterLen == len(h.CDRRouteingFilter) && vx.BytesEq(d[r.filterStart:r.filterStart+r.filterLen], h.CDRRouteingFilter))
	vx.Assert("private extension", r.extLen == len(h.PrivateExtension) && vx.BytesEq(d[r.extStart:r.extStart+r.extLen], h.PrivateExtension))
	if h.HighReleaseIdentifier == 7 {
		vx.Assert("high release extension", r.hrelExt == h.HighReleaseIdentifierExtension)
	}
	if h.LowReleaseIdentifier == 7 {
		vx.Assert("low release extension", r.lrelExt == h.LowReleaseIdentifierExtension)
	}
	vx.Assert("record count", len(r.recs) == len(f.CdrList))
	if len(r.recs) != len(f.CdrList) {
		return
	}
	for i, c := range f.CdrList {
		rr := r.recs[i]
		vx.Assert("record length field", rr.length == len(c.CdrByte))
		vx.Assert("record identifiers", vx.And(vx.And(rr.rel == uint8(c.Hdr.ReleaseIdentifier), rr.ver == c.Hdr.VersionIdentifier), vx.And(rr.format == uint8(c.Hdr.DataRecordFormat), rr.ts == uint8(c.Hdr.TsNumber))))
		if c.Hdr.ReleaseIdentifier == 7 {
			vx.Assert("record release extension", rr.relExt == c.Hdr.ReleaseIdentifierExtension)
		}
		if rr.length == len(c.CdrByte) {
			vx.Assert("record payload", vx.BytesEq(d[rr.payloadStart:rr.payloadStart+rr.length], c.CdrByte))
		}
	}
}
