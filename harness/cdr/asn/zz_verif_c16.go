package asn

//gosx:file init=github.com/free5gc/chf/cdr/asn

import (
	vx "github.com/free5gc/chf/zzvx"
)

// ---------------------------------------------------------------------------
// C16 unit obligations: the decoder kernels on EVERY byte string of length
// 0..N never panic, terminate, and never touch bytes beyond len(input).
// Input slices are handed over with cap = len + 4 and the engine flags every
// slice expression that extends beyond len (strictcap), because no Go
// runtime check would.
// ---------------------------------------------------------------------------

func zzInput(label string, maxLen int) []byte {
	n := vx.Choice(label+".len", maxLen+1)
	return vx.Bytes(label, n+4)[:n]
}

//gosx:property=C16 tier=quick strictcap unwind=20 p.maxlen=10 p.maxlen.thorough=16
func ZZ_C16_ParseTagAndLength() {
	b := zzInput("b", vx.Param("maxlen", 10))
	tal, off, err := parseTagAndLength(b)
	if err == nil {
		vx.Assert("offset within input", off >= 0 && off <= len(b))
		vx.Assert("length non-negative", tal.len >= 0)
	}
}

//gosx:property=C16 tier=quick strictcap unwind=20
func ZZ_C16_ParseLeafs() {
	b := zzInput("b", 9)
	switch vx.Choice("fn", 2) {
	case 0:
		parseInt64(b)
	case 1:
		parseBitString(b)
	}
	vx.Assert("parser returned", true)
}

// Unmarshal into each primitive target type: error or value, never a panic.
//
//gosx:property=C16 tier=quick strictcap unwind=20 p.maxlen=6 p.maxlen.thorough=8
func ZZ_C16_UnmarshalPrimitives() {
	b := zzInput("b", vx.Param("maxlen", 6))
	p := ""
	if vx.Choice("ctx", 2) == 1 {
		p = "tagNum:1"
	}
	switch vx.Choice("target", 9) {
	case 0:
		var w int64
		UnmarshalWithParams(b, &w, p)
	case 1:
		var w int32
		UnmarshalWithParams(b, &w, p)
	case 2:
		var w bool
		UnmarshalWithParams(b, &w, p)
	case 3:
		var w Enumerated
		UnmarshalWithParams(b, &w, p)
	case 4:
		var w OctetString
		UnmarshalWithParams(b, &w, p)
	case 5:
		var w BitString
		UnmarshalWithParams(b, &w, p)
	case 6:
		var w NULL
		UnmarshalWithParams(b, &w, p)
	case 7:
		var w IA5String
		UnmarshalWithParams(b, &w, p)
	case 8:
		var w ObjectIdentifier
		err := UnmarshalWithParams(b, &w, p)
		if len(b) >= 2 {
			vx.Assert("OBJECT IDENTIFIER is reported as unsupported", err != nil)
		}
	}
	vx.Assert("decoder returned", true)
}

// Malformed input must be reported as an error: empty and truncated input.
//
//gosx:property=C16 tier=quick unwind=20
func ZZ_C16_MalformedIsError() {
	b := zzInput("b", 6)
	var w int64
	err := Unmarshal(b, &w)
	if len(b) == 0 {
		vx.Assert("empty input is an error", err != nil)
		return
	}
	if len(b) == 1 {
		vx.Assert("input without length octet is an error", err != nil)
		return
	}
	// short-form length larger than what follows = truncated
	if b[0]&0x1f != 0x1f && b[1] < 0x80 && int(b[1]) > len(b)-2 {
		vx.Assert("truncated contents is an error", err != nil)
	}
	// zero-length INTEGER / BOOLEAN contents are malformed
	if b[0]&0x1f != 0x1f && b[1] == 0 {
		vx.Assert("zero-length INTEGER is an error", err != nil)
		var bb bool
		vx.Assert("zero-length BOOLEAN is an error", Unmarshal(b, &bb) != nil)
	}
}

type zzTwo struct {
	A int64 `ber:"tagNum:0"`
	B bool  `ber:"tagNum:1"`
}

type zzPlainSeq struct {
	A int64
	B bool
}

// Wrongly-typed input is reported as an error: an element whose identifier
// (class or tag number) is not the one the target type and its parameters
// call for - a BOOLEAN where an INTEGER is expected, a universal tag where a
// context tag is expected, a wrong context tag number - never yields a value.
// The element is otherwise arbitrary (any length octets and contents).
//
//gosx:property=C16 tier=quick unwind=20 p.maxlen=5 p.maxlen.thorough=7
func ZZ_C16_WronglyTypedIsError() {
	b := zzInput("b", vx.Param("maxlen", 5))
	vx.Assume(len(b) >= 2)
	vx.Assume(b[0]&0x1f != 0x1f) // low tag numbers (the expected ones all are)
	class := int(b[0] >> 6)
	num := uint64(b[0] & 0x1f)
	p := ""
	tagged := vx.Choice("ctx", 3)
	switch tagged {
	case 1:
		p = "tagNum:5"
	case 2:
		p = "tagNum:5,explicit"
	}
	var want uint64
	var err error
	switch vx.Choice("target", 10) {
	case 0:
		var w int64
		want, err = TagInteger, UnmarshalWithParams(b, &w, p)
	case 1:
		var w int32
		want, err = TagInteger, UnmarshalWithParams(b, &w, p)
	case 2:
		var w bool
		want, err = TagBoolean, UnmarshalWithParams(b, &w, p)
	case 3:
		var w Enumerated
		want, err = TagEnumerated, UnmarshalWithParams(b, &w, p)
	case 4:
		var w OctetString
		want, err = TagOctetString, UnmarshalWithParams(b, &w, p)
	case 5:
		var w BitString
		want, err = TagBitString, UnmarshalWithParams(b, &w, p)
	case 6:
		var w NULL
		want, err = TagNull, UnmarshalWithParams(b, &w, p)
	case 7:
		var w zzPlainSeq
		want, err = TagSequence, UnmarshalWithParams(b, &w, p)
	case 8:
		var w zzTwo
		want, err = TagSequence, UnmarshalWithParams(b, &w, p)
	case 9:
		var w []int64
		want, err = TagSequence, UnmarshalWithParams(b, &w, p)
	}
	if tagged != 0 {
		if class != ClassContextSpecific || num != 5 {
			vx.Assert("an element without the expected context tag is an error", err != nil)
		}
		return
	}
	if class != ClassUniversal || num != want {
		vx.Assert("an element of another universal type / class is an error", err != nil)
	}
}

// A SEQUENCE member with a context tag is recognised by class and number: a
// universal or application element that merely carries the same number is
// not taken for it.
//
//gosx:property=C16 tier=quick unwind=20
func ZZ_C16_MemberOfAnotherClassIsError() {
	id := vx.Byte("id")
	vx.Assume(id&0x1f == 0 && id>>6 != ClassContextSpecific) // number 0, not context class
	b := []byte{0x30, 0x06, id, 0x01, vx.Byte("a"), 0x81, 0x01, vx.Byte("bb")}
	var w zzTwo
	vx.Assert("a member element of another class is an error", Unmarshal(b, &w) != nil)
}

type zzListHolder struct {
	N int64   `ber:"tagNum:0"`
	L []int64 `ber:"tagNum:1,optional"`
}

// Lists on arbitrary bytes: every byte string of 0..N octets decoded into a
// SEQUENCE OF INTEGER, a SEQUENCE OF SEQUENCE OF and a structure with a list
// member: error or value, no panic, and the element loop terminates (no
// legitimate loop over an input of at most N octets runs more than N times, so
// exceeding the unwinding bound or the instruction budget is a finding).
//
//gosx:property=C16 tier=quick strictcap unwind=24 nonterm=violation maxsteps=2000000 p.maxlen=8 p.maxlen.thorough=10
func ZZ_C16_ListsRawBytes() {
	b := zzInput("b", vx.Param("maxlen", 8))
	switch vx.Choice("target", 3) {
	case 0:
		var w []int64
		Unmarshal(b, &w)
	case 1:
		var w [][]int64
		Unmarshal(b, &w)
	default:
		var w zzListHolder
		Unmarshal(b, &w)
	}
	vx.Assert("decoder returned", true)
}

type zzChoiceAB struct {
	Present int
	A       *int64 `ber:"tagNum:0"`
	B       *bool  `ber:"tagNum:1"`
}

type zzSeqWithChoice struct {
	N int64      `ber:"tagNum:0"`
	C zzChoiceAB `ber:"tagNum:1"`
}

// Elements with a high tag number (identifier in the multi-octet form, 1 to
// 11 tag-number octets: up to and beyond the largest tag number the header
// parser accepts, 2^63-1) decoded into a CHOICE, a SEQUENCE and a SEQUENCE
// with a CHOICE member: error or value, never a panic. Class bits, every
// tag-number octet (7 value bits each), a short-form length and up to two
// content octets are arbitrary.
//
//gosx:property=C16 tier=quick strictcap unwind=24 nonterm=violation maxsteps=2000000
func ZZ_C16_HighTagNumbers() {
	k := []int{1, 2, 5, 9, 10, 11}[vx.Choice("tagoctets", 6)]
	id := vx.Byte("id")
	vx.Assume(id&0x1f == 0x1f)
	b := []byte{id}
	for i := 0; i < k; i++ {
		t := vx.Byte("t")
		if i < k-1 {
			vx.Assume(t&0x80 != 0)
		} else {
			vx.Assume(t&0x80 == 0)
		}
		b = append(b, t)
	}
	n := vx.Choice("contentlen", 3)
	b = append(b, byte(n))
	for i := 0; i < n; i++ {
		b = append(b, vx.Byte("c"))
	}
	switch vx.Choice("target", 3) {
	case 0:
		var w zzChoiceAB
		Unmarshal(b, &w)
	case 1:
		var w zzTwo
		Unmarshal(b, &w)
	default:
		var w zzSeqWithChoice
		// the CHOICE member sits behind a well-formed outer header
		outer := append([]byte{0x30, byte(len(b) + 2), 0xa1, byte(len(b))}, b...)
		Unmarshal(outer, &w)
	}
	vx.Assert("decoder returned", true)
}
