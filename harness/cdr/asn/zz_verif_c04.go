package asn

//gosx:file init=github.com/free5gc/chf/cdr/asn,github.com/free5gc/chf/zzref

import (
	"reflect"

	"github.com/free5gc/chf/zzref"
	vx "github.com/free5gc/chf/zzvx"
)

// ---------------------------------------------------------------------------
// C04 unit obligations: the encoder's leaf kernels equal the X.690 reference
// (package zzref) for ALL values within the stated ranges.
// ---------------------------------------------------------------------------

// U1: identifier and length octets, all classes, constructed bit, every tag
// number < 2^63 and every length 0 <= len < 2^63.
//
//gosx:property=C04 tier=quick unwind=12
func ZZ_C04_TagAndLen() {
	class := vx.Int("class")
	vx.Assume(class >= 0)
	vx.Assume(class <= 3)
	constructed := vx.Bool("constructed")
	tag := vx.Uint64("tag")
	vx.Assume(tag < 1<<63)
	ln := vx.Int64("len")
	vx.Assume(ln >= 0)
	got := appendTagAndLen(make([]byte, 8)[:0], tagAndLen{class: class, constructed: constructed, tagNumber: tag, len: ln})
	want := zzref.Header(class, constructed, tag, int(ln))
	vx.Assert("identifier+length octets equal X.690 reference", vx.BytesEq(got, want))
}

// U2a: INTEGER contents octets: minimal two's complement, all 2^64 values.
//
//gosx:property=C04 tier=quick unwind=12
func ZZ_C04_Int64Contents() {
	v := vx.Int64("v")
	e := int64Encoder(v)
	n := e.Len()
	vx.Assert("length within 1..8", n >= 1 && n <= 8)
	dst := make([]byte, n)
	e.Encode(dst)
	vx.Assert("INTEGER contents equal minimal two's complement", vx.BytesEq(dst, zzref.IntContent(v)))
}

func zzMarshalVsRef(val interface{}, params string) {
	got, err := BerMarshalWithParams(val, params)
	want, rerr := zzref.Encode(reflect.ValueOf(val), zzref.ParseParams(params))
	if rerr != nil {
		vx.Assert("unsupported/invalid value is reported as an error", err != nil)
		return
	}
	vx.Assert("marshal succeeds on a supported value", err == nil)
	if err != nil {
		return
	}
	vx.Assert("encoding equals X.690 reference", vx.BytesEq(got, want))
	vx.Assert("encoding is one well-formed TLV", zzref.WellFormed(got))
}

func zzParams(label string) string {
	// tagging context of a primitive: untagged, IMPLICIT [n], EXPLICIT [n]
	switch vx.Choice(label, 5) {
	case 0:
		return ""
	case 1:
		return "tagNum:0"
	case 2:
		return "tagNum:30,explicit"
	case 3:
		return "tagNum:31"
	default:
		return "tagNum:200,explicit"
	}
}

//gosx:property=C04 tier=quick unwind=12
func ZZ_C04_Integer() {
	zzMarshalVsRef(vx.Int64("v"), zzParams("ctx"))
}

//gosx:property=C04 tier=quick unwind=12
func ZZ_C04_Int32AndInt() {
	if vx.Choice("kind", 2) == 0 {
		zzMarshalVsRef(vx.Int32("v"), zzParams("ctx"))
	} else {
		zzMarshalVsRef(vx.Int("v"), zzParams("ctx"))
	}
}

//gosx:property=C04 tier=quick unwind=12
func ZZ_C04_Enumerated() {
	zzMarshalVsRef(Enumerated(vx.Int64("v")), zzParams("ctx"))
}

//gosx:property=C04 tier=quick
func ZZ_C04_BoolNull() {
	if vx.Choice("kind", 2) == 0 {
		zzMarshalVsRef(vx.Bool("v"), zzParams("ctx"))
	} else {
		zzMarshalVsRef(NULL(vx.Bool("v")), zzParams("ctx"))
	}
}

// zzLen forks over content lengths: 0..small plus the length-octet boundaries.
func zzLen(label string, small int, big bool) (n int, symbolic bool) {
	k := vx.Choice(label, small+1+4)
	if k <= small {
		return k, true
	}
	if !big {
		return []int{126, 127, 128, 129}[k-small-1], true
	}
	return []int{255, 256, 65535, 65536}[k-small-1], false
}

func zzBytes(label string, n int, symbolic bool) []byte {
	if symbolic {
		return vx.Bytes(label, n)
	}
	return make([]byte, n) // long strings: contents concrete, only the header matters
}

//gosx:property=C04 tier=quick
func ZZ_C04_OctetString() {
	n, sym := zzLen("n", 4, false)
	zzMarshalVsRef(OctetString(zzBytes("b", n, sym)), zzParams("ctx"))
}

//gosx:property=C04 tier=thorough
func ZZ_C04_OctetStringLong() {
	n, sym := zzLen("n", 0, true)
	zzMarshalVsRef(OctetString(zzBytes("b", n, sym)), zzParams("ctx"))
}

//gosx:property=C04 tier=quick
func ZZ_C04_Strings() {
	n, sym := zzLen("n", 3, false)
	s := string(zzBytes("s", n, sym))
	p := zzParams("ctx")
	sep := ","
	if p == "" {
		sep = ""
	}
	switch vx.Choice("strtype", 3) {
	case 0:
		zzMarshalVsRef(UTF8String(s), p+sep+"utf8")
	case 1:
		zzMarshalVsRef(IA5String(s), p+sep+"ia5")
	default:
		zzMarshalVsRef(GraphicString(s), p+sep+"graphic")
	}
}

// BIT STRING: every byte length 0..4 and every BitLength consistent with it
// (8(n-1) < BitLength <= 8n; BitLength 0 with no bytes).
//
//gosx:property=C04 tier=quick
func ZZ_C04_BitString() {
	n := vx.Choice("nbytes", 5)
	bl := vx.Uint64("bitlen")
	vx.Assume(bl <= uint64(8*n))
	vx.Assume(bl+8 > uint64(8*n))
	vx.Assume(n != 0 || bl == 0)
	vx.Assume(n == 0 || bl > 0)
	zzMarshalVsRef(BitString{Bytes: vx.Bytes("b", n), BitLength: bl}, zzParams("ctx"))
}

// C04 over a sequence of marshals in one process: values of different struct
// types - unnamed ones and a function-local named one included - are encoded
// one after the other, in either order; each encoding equals the reference
// (no state kept between calls may leak from one type to the next).
//
//gosx:property=C04 tier=quick unwind=16
func ZZ_C04_DifferentTypesInSequence() {
	a := vx.Int64("a")
	vx.Assume(a >= -128 && a <= 127)
	v1 := struct {
		A int64 `ber:"tagNum:0"`
		B int64 `ber:"tagNum:1"`
	}{A: a, B: 7}
	v2 := struct {
		X int64  `ber:"tagNum:5"`
		Y bool   `ber:"tagNum:6"`
		Z *int64 `ber:"tagNum:7,optional"`
	}{X: a, Y: vx.Bool("y")}
	type local struct {
		P bool  `ber:"tagNum:2"`
		Q int64 `ber:"tagNum:9,explicit"`
	}
	v3 := local{P: true, Q: a}
	switch vx.Choice("order", 3) {
	case 0:
		zzMarshalVsRef(v1, "")
		zzMarshalVsRef(v2, "")
		zzMarshalVsRef(v3, "")
	case 1:
		zzMarshalVsRef(v2, "")
		zzMarshalVsRef(v1, "")
		zzMarshalVsRef(v3, "")
	default:
		zzMarshalVsRef(v3, "")
		zzMarshalVsRef(v2, "")
		zzMarshalVsRef(v1, "")
	}
}

// C03 lemma at encoder level: whatever sizes the members of a CHF record
// have, the header the encoder writes for an element announces exactly its
// number of content octets - for EVERY length up to 65535 + slack and every
// tag the records use (universal and context class, tag numbers < 2^14). The
// file-level harnesses of C03 cover size classes only; an element of exactly
// 256 (or any other particular number of) octets is covered here.
//
//gosx:property=C03 tier=quick unwind=12
func ZZ_C03_EveryElementLengthIsAnnouncedExactly() {
	class := vx.Int("class")
	vx.Assume(class == ClassUniversal || class == ClassContextSpecific)
	tag := vx.Uint64("tag")
	vx.Assume(tag < 1<<14)
	ln := vx.Int64("len")
	vx.Assume(ln >= 0 && ln < 1<<17)
	got := appendTagAndLen(make([]byte, 8)[:0], tagAndLen{class: class, constructed: vx.Bool("constructed"), tagNumber: tag, len: ln})
	// independent reading of the length octets (X.690 8.1.3)
	i := 1
	if tag >= 31 {
		for i < len(got) && got[i]&0x80 != 0 {
			i++
		}
		i++
	}
	vx.Assert("header has length octets", i < len(got))
	if i >= len(got) {
		return
	}
	var announced int64
	if got[i] < 0x80 {
		announced = int64(got[i])
		vx.Assert("short form ends the header", i+1 == len(got))
	} else {
		n := int(got[i] & 0x7f)
		vx.Assert("long form carries its length octets", n >= 1 && i+1+n == len(got))
		if n < 1 || i+1+n != len(got) {
			return
		}
		for k := 0; k < n; k++ {
			announced = announced<<8 | int64(got[i+1+k])
		}
	}
	vx.Assert("the announced length is the number of content octets", announced == ln)
}
