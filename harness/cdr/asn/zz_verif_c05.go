package asn

//gosx:file init=github.com/free5gc/chf/cdr/asn

import vx "github.com/free5gc/chf/zzvx"

// C05-U1: every int64 survives BerMarshal -> Unmarshal.
//
//gosx:property=C05 tier=quick init=github.com/free5gc/chf/cdr/asn
func ZZ_C05_Int64() {
	v := vx.Int64("v")
	b, err := BerMarshal(v)
	vx.Assert("marshal succeeds", err == nil)
	var w int64
	err = Unmarshal(b, &w)
	vx.Assert("unmarshal succeeds", err == nil)
	vx.Assert("round trip", w == v)
}

func ZZ_C05_Int64_regionNegative(v int64) bool { return v < 0 }
