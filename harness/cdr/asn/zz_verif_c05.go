package asn

//gosx:file init=github.com/free5gc/chf/cdr/asn

import (
	vx "github.com/free5gc/chf/zzvx"
)

// ---------------------------------------------------------------------------
// C05 unit obligations: decode(encode(v)) == v for every primitive value.
// ---------------------------------------------------------------------------

// every int64 (all 2^64 values; strictly more than "exhaustive up to 3
// content octets and all 2^k, 2^k+-1").
//
//gosx:property=C05 tier=quick unwind=12
func ZZ_C05_Int64() {
	v := vx.Int64("v")
	p := zzParams("ctx")
	b, err := BerMarshalWithParams(v, p)
	vx.Assert("marshal succeeds", err == nil)
	var w int64
	err = UnmarshalWithParams(b, &w, p)
	vx.Assert("unmarshal succeeds", err == nil)
	vx.Assert("round trip", w == v)
}

//gosx:property=C05 tier=quick unwind=12
func ZZ_C05_Int32AndInt() {
	p := zzParams("ctx")
	if vx.Choice("kind", 2) == 0 {
		v := vx.Int32("v")
		b, err := BerMarshalWithParams(v, p)
		vx.Assert("marshal succeeds", err == nil)
		var w int32
		err = UnmarshalWithParams(b, &w, p)
		vx.Assert("unmarshal succeeds", err == nil)
		vx.Assert("round trip", w == v)
	} else {
		v := vx.Int("v")
		b, err := BerMarshalWithParams(v, p)
		vx.Assert("marshal succeeds", err == nil)
		var w int
		err = UnmarshalWithParams(b, &w, p)
		vx.Assert("unmarshal succeeds", err == nil)
		vx.Assert("round trip", w == v)
	}
}

//gosx:property=C05 tier=quick unwind=12
func ZZ_C05_Enumerated() {
	v := Enumerated(vx.Int64("v"))
	p := zzParams("ctx")
	b, err := BerMarshalWithParams(v, p)
	vx.Assert("marshal succeeds", err == nil)
	var w Enumerated
	err = UnmarshalWithParams(b, &w, p)
	vx.Assert("unmarshal succeeds", err == nil)
	vx.Assert("round trip", w == v)
}

//gosx:property=C05 tier=quick
func ZZ_C05_Bool() {
	v := vx.Bool("v")
	p := zzParams("ctx")
	b, err := BerMarshalWithParams(v, p)
	vx.Assert("marshal succeeds", err == nil)
	var w bool
	err = UnmarshalWithParams(b, &w, p)
	vx.Assert("unmarshal succeeds", err == nil)
	vx.Assert("round trip", w == v)
}

//gosx:property=C05 tier=quick
func ZZ_C05_Null() {
	v := NULL(true)
	p := zzParams("ctx")
	b, err := BerMarshalWithParams(v, p)
	vx.Assert("marshal succeeds", err == nil)
	var w NULL
	err = UnmarshalWithParams(b, &w, p)
	vx.Assert("unmarshal succeeds", err == nil)
	vx.Assert("round trip", w == v)
}

//gosx:property=C05 tier=quick
func ZZ_C05_OctetString() {
	n, sym := zzLen("n", 4, false)
	v := OctetString(zzBytes("b", n, sym))
	p := zzParams("ctx")
	b, err := BerMarshalWithParams(v, p)
	vx.Assert("marshal succeeds", err == nil)
	var w OctetString
	err = UnmarshalWithParams(b, &w, p)
	vx.Assert("unmarshal succeeds", err == nil)
	vx.Assert("round trip", vx.BytesEq(w, v))
}

//gosx:property=C05 tier=thorough
func ZZ_C05_OctetStringLong() {
	n, sym := zzLen("n", 0, true)
	v := OctetString(zzBytes("b", n, sym))
	p := zzParams("ctx")
	b, err := BerMarshalWithParams(v, p)
	vx.Assert("marshal succeeds", err == nil)
	var w OctetString
	err = UnmarshalWithParams(b, &w, p)
	vx.Assert("unmarshal succeeds", err == nil)
	vx.Assert("round trip", vx.BytesEq(w, v))
}

//gosx:property=C05 tier=quick
func ZZ_C05_Strings() {
	n, sym := zzLen("n", 3, false)
	s := string(zzBytes("s", n, sym))
	p := zzParams("ctx")
	sep := ","
	if p == "" {
		sep = ""
	}
	switch vx.Choice("strtype", 3) {
	case 0:
		v := UTF8String(s)
		b, err := BerMarshalWithParams(v, p+sep+"utf8")
		vx.Assert("marshal succeeds", err == nil)
		var w UTF8String
		err = UnmarshalWithParams(b, &w, p+sep+"utf8")
		vx.Assert("unmarshal succeeds", err == nil)
		vx.Assert("round trip", w == v)
	case 1:
		v := IA5String(s)
		b, err := BerMarshalWithParams(v, p+sep+"ia5")
		vx.Assert("marshal succeeds", err == nil)
		var w IA5String
		err = UnmarshalWithParams(b, &w, p+sep+"ia5")
		vx.Assert("unmarshal succeeds", err == nil)
		vx.Assert("round trip", w == v)
	default:
		v := GraphicString(s)
		b, err := BerMarshalWithParams(v, p+sep+"graphic")
		vx.Assert("marshal succeeds", err == nil)
		var w GraphicString
		err = UnmarshalWithParams(b, &w, p+sep+"graphic")
		vx.Assert("unmarshal succeeds", err == nil)
		vx.Assert("round trip", w == v)
	}
}

//gosx:property=C05 tier=quick
func ZZ_C05_BitString() {
	n := vx.Choice("nbytes", 5)
	bl := vx.Uint64("bitlen")
	vx.Assume(bl <= uint64(8*n))
	vx.Assume(bl+8 > uint64(8*n))
	vx.Assume(n != 0 || bl == 0)
	vx.Assume(n == 0 || bl > 0)
	v := BitString{Bytes: vx.Bytes("b", n), BitLength: bl}
	p := zzParams("ctx")
	b, err := BerMarshalWithParams(v, p)
	vx.Assert("marshal succeeds", err == nil)
	var w BitString
	err = UnmarshalWithParams(b, &w, p)
	vx.Assert("unmarshal succeeds", err == nil)
	vx.Assert("round trip: bit length", w.BitLength == v.BitLength)
	vx.Assert("round trip: bytes", vx.BytesEq(w.Bytes, v.Bytes))
}

func ZZ_C05_regionNegative(v int64) bool { return v < 0 }
