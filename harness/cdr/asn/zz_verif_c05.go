package asn

//gosx:file init=github.com/free5gc/chf/cdr/asn

import (
	vx "github.com/free5gc/chf/zzvx"
)

// ---------------------------------------------------------------------------
// C05 unit obligations: decode(encode(v)) == v for every primitive value.
// ---------------------------------------------------------------------------

// every int64 (all 2^64 values; strictly more than "exhaustive up to 3
// content octets and all 2^k, 2^k+-1").
//
//gosx:property=C05 tier=quick unwind=12
func ZZ_C05_Int64() {
	v := vx.Int64("v")
	p := zzParams("ctx")
	b, err := BerMarshalWithParams(v, p)
	vx.Assert("marshal succeeds", err == nil)
	var w int64
	err = UnmarshalWithParams(b, &w, p)
	vx.Assert("unmarshal succeeds", err == nil)
	vx.Assert("round trip", w == v)
}

//gosx:property=C05 tier=quick unwind=12
func ZZ_C05_Int32AndInt() {
	p := zzParams("ctx")
	if vx.Choice("kind", 2) == 0 {
		v := vx.Int32("v")
		b, err := BerMarshalWithParams(v, p)
		vx.Assert("marshal succeeds", err == nil)
		var w int32
		err = UnmarshalWithParams(b, &w, p)
		vx.Assert("unmarshal succeeds", err == nil)
		vx.Assert("round trip", w == v)
	} else {
		v := vx.Int("v")
		b, err := BerMarshalWithParams(v, p)
		vx.Assert("marshal succeeds", err == nil)
		var w int
		err = UnmarshalWithParams(b, &w, p)
		vx.Assert("unmarshal succeeds", err == nil)
		vx.Assert("round trip", w == v)
	}
}

//gosx:property=C05 tier=quick unwind=12
func ZZ_C05_Enumerated() {
	v := Enumerated(vx.Int64("v"))
	p := zzParams("ctx")
	b, err := BerMarshalWithParams(v, p)
	vx.Assert("marshal succeeds", err == nil)
	var w Enumerated
	err = UnmarshalWithParams(b, &w, p)
	vx.Assert("unmarshal succeeds", err == nil)
	vx.Assert("round trip", w == v)
}

//gosx:property=C05 tier=quick
func ZZ_C05_Bool() {
	v := vx.Bool("v")
	p := zzParams("ctx")
	b, err := BerMarshalWithParams(v, p)
	vx.Assert("marshal succeeds", err == nil)
	var w bool
	err = UnmarshalWithParams(b, &w, p)
	vx.Assert("unmarshal succeeds", err == nil)
	vx.Assert("round trip", w == v)
}

//gosx:property=C05 tier=quick
func ZZ_C05_Null() {
	v := NULL(true)
	p := zzParams("ctx")
	b, err := BerMarshalWithParams(v, p)
	vx.Assert("marshal succeeds", err == nil)
	var w NULL
	err = UnmarshalWithParams(b, &w, p)
	vx.Assert("unmarshal succeeds", err == nil)
	vx.Assert("round trip", w == v)
}

//gosx:property=C05 tier=quick
func ZZ_C05_OctetString() {
	n, sym := zzLen("n", 4, false)
	v := OctetString(zzBytes("b", n, sym))
	p := zzParams("ctx")
	b, err := BerMarshalWithParams(v, p)
	vx.Assert("marshal succeeds", err == nil)
	var w OctetString
	err = UnmarshalWithParams(b, &w, p)
	vx.Assert("unmarshal succeeds", err == nil)
	vx.Assert("round trip", vx.BytesEq(w, v))
}

//gosx:property=C05 tier=thorough
func ZZ_C05_OctetStringLong() {
	n, sym := zzLen("n", 0, true)
	v := OctetString(zzBytes("b", n, sym))
	p := zzParams("ctx")
	b, err := BerMarshalWithParams(v, p)
	vx.Assert("marshal succeeds", err == nil)
	var w OctetString
	err = UnmarshalWithParams(b, &w, p)
	vx.Assert("unmarshal succeeds", err == nil)
	vx.Assert("round trip", vx.BytesEq(w, v))
}

//gosx:property=C05 tier=quick
func ZZ_C05_Strings() {
	n, sym := zzLen("n", 3, false)
	s := string(zzBytes("s", n, sym))
	p := zzParams("ctx")
	sep := ","
	if p == "" {
		sep = ""
	}
	switch vx.Choice("strtype", 3) {
	case 0:
		v := UTF8String(s)
		b, err := BerMarshalWithParams(v, p+sep+"utf8")
		vx.Assert("marshal succeeds", err == nil)
		var w UTF8String
		err = UnmarshalWithParams(b, &w, p+sep+"utf8")
		vx.Assert("unmarshal succeeds", err == nil)
		vx.Assert("round trip", w == v)
	case 1:
		v := IA5String(s)
		b, err := BerMarshalWithParams(v, p+sep+"ia5")
		vx.Assert("marshal succeeds", err == nil)
		var w IA5String
		err = UnmarshalWithParams(b, &w, p+sep+"ia5")
		vx.Assert("unmarshal succeeds", err == nil)
		vx.Assert("round trip", w == v)
	default:
		v := GraphicString(s)
		b, err := BerMarshalWithParams(v, p+sep+"graphic")
		vx.Assert("marshal succeeds", err == nil)
		var w GraphicString
		err = UnmarshalWithParams(b, &w, p+sep+"graphic")
		vx.Assert("unmarshal succeeds", err == nil)
		vx.Assert("round trip", w == v)
	}
}

//gosx:property=C05 tier=quick
func ZZ_C05_BitString() {
	n := vx.Choice("nbytes", 5)
	bl := vx.Uint64("bitlen")
	vx.Assume(bl <= uint64(8*n))
	vx.Assume(bl+8 > uint64(8*n))
	vx.Assume(n != 0 || bl == 0)
	vx.Assume(n == 0 || bl > 0)
	v := BitString{Bytes: vx.Bytes("b", n), BitLength: bl}
	p := zzParams("ctx")
	b, err := BerMarshalWithParams(v, p)
	vx.Assert("marshal succeeds", err == nil)
	var w BitString
	err = UnmarshalWithParams(b, &w, p)
	vx.Assert("unmarshal succeeds", err == nil)
	vx.Assert("round trip: bit length", w.BitLength == v.BitLength)
	vx.Assert("round trip: bytes", vx.BytesEq(w.Bytes, v.Bytes))
}

func ZZ_C05_regionNegative(v int64) bool { return v < 0 }

type zzPair struct {
	A int64
	B bool
}

// two members without a context tag that share one universal type, next to a
// member of another type
type zzSameKind struct {
	First  int64
	Second int64
	Flag   bool
	Third  int64
}

type zzSetOfHolder struct {
	Plain []zzPair  `ber:"tagNum:0"`
	Set   []zzPair  `ber:"tagNum:1,set"`
	Ints  []int64   `ber:"tagNum:2,set"`
	Deep  [][]int64 `ber:"tagNum:3,set,optional"`
}

// C05 for lists: SEQUENCE OF / SET OF of structures, integers and lists,
// 0..2 elements each, as members (with the set parameter in the member tag)
// and as the top-level value (with the parameter string "set").
//
//gosx:property=C05 tier=quick unwind=16
func ZZ_C05_ListsOfStructures() {
	mk := func(l string, n int) []zzPair {
		var r []zzPair
		for i := 0; i < n; i++ {
			v := vx.Int64(l + ".a")
			vx.Assume(v >= -128 && v <= 127)
			r = append(r, zzPair{A: v, B: vx.Bool(l + ".b")})
		}
		return r
	}
	n := vx.Choice("n", 3)
	if vx.Choice("toplevel", 2) == 1 {
		v := mk("e", n)
		b, err := BerMarshalWithParams(v, "set")
		vx.Assert("marshal succeeds", err == nil)
		if err != nil {
			return
		}
		var w []zzPair
		err = UnmarshalWithParams(b, &w, "set")
		vx.Assert("unmarshal succeeds", err == nil)
		if err == nil {
			vx.Assert("round trip yields an equal value", vx.Equal(v, w))
		}
		return
	}
	h := zzSetOfHolder{Plain: mk("p", n), Set: mk("s", n), Ints: []int64{}}
	for i := 0; i < n; i++ {
		v := vx.Int64("i")
		vx.Assume(v >= -128 && v <= 127)
		h.Ints = append(h.Ints, v)
	}
	if n == 2 {
		h.Deep = [][]int64{{1}, {2, 3}}
	}
	b, err := BerMarshal(h)
	vx.Assert("marshal succeeds", err == nil)
	if err != nil {
		return
	}
	var w zzSetOfHolder
	err = Unmarshal(b, &w)
	vx.Assert("unmarshal succeeds", err == nil)
	if err == nil {
		vx.Assert("round trip yields an equal value", vx.Equal(h, w))
	}
}

// C05 over a sequence of calls in one process: values of different (unnamed
// and function-local) struct types are encoded and decoded one after the
// other, in either order; every round trip yields an equal value (no state
// kept between calls may leak from one type to the next).
//
//gosx:property=C05 tier=quick unwind=16
func ZZ_C05_DifferentTypesInSequence() {
	a := vx.Int64("a")
	vx.Assume(a >= -128 && a <= 127)
	type t1 = struct {
		A int64 `ber:"tagNum:0"`
		B int64 `ber:"tagNum:1"`
	}
	type t2 = struct {
		X int64  `ber:"tagNum:5"`
		Y bool   `ber:"tagNum:6"`
		Z *int64 `ber:"tagNum:7,optional"`
	}
	type local struct {
		P bool  `ber:"tagNum:2"`
		Q int64 `ber:"tagNum:9,explicit"`
	}
	rt1 := func() {
		v := t1{A: a, B: 7}
		b, err := BerMarshal(v)
		var w t1
		if err == nil {
			err = Unmarshal(b, &w)
		}
		vx.Assert("round trip of the first type", err == nil && vx.Equal(v, w))
	}
	rt2 := func() {
		v := t2{X: a, Y: vx.Bool("y")}
		b, err := BerMarshal(v)
		var w t2
		if err == nil {
			err = Unmarshal(b, &w)
		}
		vx.Assert("round trip of the second type", err == nil && vx.Equal(v, w))
	}
	rt3 := func() {
		v := local{P: true, Q: a}
		b, err := BerMarshal(v)
		var w local
		if err == nil {
			err = Unmarshal(b, &w)
		}
		vx.Assert("round trip of the local type", err == nil && vx.Equal(v, w))
	}
	switch vx.Choice("order", 3) {
	case 0:
		rt1()
		rt2()
		rt3()
	case 1:
		rt2()
		rt1()
		rt3()
	default:
		rt3()
		rt2()
		rt1()
	}
}

// C05 for SEQUENCE members without context tags, several of them of the same
// universal type: each element is decoded into its own member, in order.
//
//gosx:property=C05 tier=quick unwind=16
func ZZ_C05_UntaggedMembersOfOneType() {
	mk := func(l string) int64 {
		v := vx.Int64(l)
		vx.Assume(v >= -128 && v <= 127)
		return v
	}
	v := zzSameKind{First: mk("first"), Second: mk("second"), Flag: vx.Bool("flag"), Third: mk("third")}
	b, err := BerMarshal(v)
	vx.Assert("marshal succeeds", err == nil)
	if err != nil {
		return
	}
	var w zzSameKind
	err = Unmarshal(b, &w)
	vx.Assert("unmarshal succeeds", err == nil)
	if err == nil {
		vx.Assert("round trip yields an equal value", vx.Equal(v, w))
	}
}
