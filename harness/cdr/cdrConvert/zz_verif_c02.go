package cdrConvert

import (
	vx "github.com/free5gc/chf/zzvx"
)

func zzBCD(x int) byte { return byte(x/10)<<4 | byte(x%10) }

// C02(d): the record opening time stamp denotes the instant in the TS 32.298
// format YYMMDDhhmmssShhmm (BCD, S = ASCII sign), for every calendar value
// and every zone offset in [-14h, +14h] (whole minutes and not).
//
//gosx:property=C02 tier=quick
func ZZ_C02_TimeStamp() {
	t := vx.Time("t")
	got := TimeStampToCdr(&t).Value
	_, off := t.Zone()
	vx.Assert("9 octets", len(got) == 9)
	if len(got) != 9 {
		return
	}
	vx.Assert("year", got[0] == zzBCD(t.Year()%100))
	vx.Assert("month", got[1] == zzBCD(int(t.Month())))
	vx.Assert("day", got[2] == zzBCD(t.Day()))
	vx.Assert("hour", got[3] == zzBCD(t.Hour()))
	vx.Assert("minute", got[4] == zzBCD(t.Minute()))
	vx.Assert("second", got[5] == zzBCD(t.Second()))
	sign := byte('+')
	abs := off
	if off < 0 {
		sign = '-'
		abs = -off
	}
	vx.Assert("sign of the local time differential", got[6] == sign)
	vx.Assert("hours of the local time differential", got[7] == zzBCD(abs/3600))
	vx.Assert("minutes of the local time differential", got[8] == zzBCD(abs%3600/60))
}
