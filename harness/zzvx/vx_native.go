// Package zzvx, native side: the same API backed by a recorded assignment, so
// that a harness compiled with the ordinary Go toolchain replays the solver's
// counterexample against the real code.
package zzvx

import (
	"bytes"
	"encoding/hex"
	"encoding/json"
	"fmt"
	"os"
	"reflect"
	"runtime/debug"
	"strconv"
	"sync"
	"testing"
	"time"
)

type inputVal struct {
	Label string   `json:"label"`
	Kind  string   `json:"kind"`
	Vals  []uint64 `json:"vals"`
	W     int      `json:"w"`
}

type replayFile struct {
	Func   string            `json:"func"`
	Inputs []inputVal        `json:"inputs"`
	Params map[string]string `json:"params"`
}

var (
	mu      sync.Mutex
	inputs  map[string]inputVal
	counts  map[string]int
	params  map[string]string
	emitOn  bool
	missing []string
	failed  []string
)

type assertFailure struct{ name string }

func sanitize(s string) string {
	b := []byte(s)
	for i, c := range b {
		switch {
		case c >= 'a' && c <= 'z', c >= 'A' && c <= 'Z', c >= '0' && c <= '9', c == '_', c == '.', c == '-':
		default:
			b[i] = '_'
		}
	}
	return string(b)
}

func next(label string) (inputVal, bool) {
	mu.Lock()
	defer mu.Unlock()
	label = sanitize(label)
	k := counts[label]
	counts[label]++
	if k > 0 {
		label = fmt.Sprintf("%s@%d", label, k)
	}
	v, ok := inputs[label]
	if !ok {
		missing = append(missing, label)
	}
	return v, ok
}

func scalar(label string) uint64 {
	v, ok := next(label)
	if !ok || len(v.Vals) == 0 {
		return 0
	}
	return v.Vals[0]
}

func Int64(label string) int64   { return int64(scalar(label)) }
func Int(label string) int       { return int(int64(scalar(label))) }
func Int32(label string) int32   { return int32(scalar(label)) }
func Int16(label string) int16   { return int16(scalar(label)) }
func Int8(label string) int8     { return int8(scalar(label)) }
func Uint64(label string) uint64 { return scalar(label) }
func Uint32(label string) uint32 { return uint32(scalar(label)) }
func Uint16(label string) uint16 { return uint16(scalar(label)) }
func Uint8(label string) uint8   { return uint8(scalar(label)) }
func Byte(label string) byte     { return byte(scalar(label)) }
func Bool(label string) bool     { return scalar(label) != 0 }

func Bytes(label string, n int) []byte {
	v, _ := next(label)
	b := make([]byte, n)
	for i := range b {
		if i < len(v.Vals) {
			b[i] = byte(v.Vals[i])
		}
	}
	return b
}

func String(label string, n int) string { return string(Bytes(label, n)) }

func DecString(label string) string { return strconv.FormatInt(int64(scalar(label)), 10) }

func Choice(label string, n int) int { return int(scalar(label)) }

func Time(label string) time.Time {
	y := Int(label + ".year")
	mo := Int(label + ".month")
	d := Int(label + ".day")
	h := Int(label + ".hour")
	mi := Int(label + ".min")
	s := Int(label + ".sec")
	off := Int(label + ".zoneoff")
	return time.Date(y, time.Month(mo), d, h, mi, s, 0, time.FixedZone("", off))
}

type assumeFailure struct{}

func Assume(cond bool) {
	if !cond {
		panic(assumeFailure{})
	}
}

// Assert records a failed assertion and lets the harness continue, as the
// symbolic engine does, so that every assertion that fails on the recorded
// inputs is reported.
func Assert(name string, cond bool) {
	if !cond {
		mu.Lock()
		failed = append(failed, name)
		mu.Unlock()
	}
}

func Fail(name string)               { Assert(name, false) }
func Tag(name string, v interface{}) {}
func Note(msg string)                {}
func Symbolic() bool                 { return false }
func LocksHeld() int                 { return -1 }
func Hex(b []byte) string            { return hex.EncodeToString(b) }
func Emit(s string)                  { fmt.Println("EMIT: " + s) }

func Param(name string, def int) int {
	if v, ok := params[name]; ok {
		n, err := strconv.Atoi(v)
		if err == nil {
			return n
		}
	}
	return def
}

// RunReplay runs harness fn with the inputs recorded in file and prints one
// REPLAY-RESULT line.
func RunReplay(t *testing.T, file string, fn func()) {
	b, err := os.ReadFile(file)
	if err != nil {
		t.Fatal(err)
	}
	var rf replayFile
	if err := json.Unmarshal(b, &rf); err != nil {
		t.Fatal(err)
	}
	inputs = map[string]inputVal{}
	counts = map[string]int{}
	params = rf.Params
	for _, in := range rf.Inputs {
		inputs[in.Label] = in
	}
	done := make(chan string, 1)
	go func() {
		defer func() {
			r := recover()
			switch r := r.(type) {
			case nil:
				if len(failed) > 0 {
					done <- "failed"
				} else {
					done <- "ok"
				}
			case assertFailure:
				done <- "assert " + strconv.Quote(r.name)
			case assumeFailure:
				done <- "assumption violated by the recorded inputs"
			default:
				done <- fmt.Sprintf("panic %v\n%s", r, debug.Stack())
			}
		}()
		fn()
	}()
	select {
	case res := <-done:
		for _, f := range failed {
			fmt.Println("REPLAY-RESULT: assert " + strconv.Quote(f))
		}
		if res != "failed" {
			fmt.Println("REPLAY-RESULT: " + res)
		}
		if len(missing) > 0 {
			fmt.Println("REPLAY-NOTE: inputs not in the recording (defaulted to zero):", missing)
		}
		if res != "ok" {
			t.Fail()
		}
	case <-time.After(60 * time.Second):
		fmt.Println("REPLAY-RESULT: timeout (harness did not finish in 60s)")
		t.Fail()
	}
}

// RunEmit runs a concrete validation harness; its Emit lines go to stdout.
func RunEmit(t *testing.T, fn func()) {
	inputs = map[string]inputVal{}
	counts = map[string]int{}
	fn()
}

func BytesEq(a, b []byte) bool { return bytes.Equal(a, b) }
func And(a, b bool) bool       { return a && b }
func Or(a, b bool) bool        { return a || b }
func Implies(a, b bool) bool   { return !a || b }

func Equal(a, b interface{}) bool {
	return deepEq(reflect.ValueOf(a), reflect.ValueOf(b))
}

func deepEq(a, b reflect.Value) bool {
	if !a.IsValid() || !b.IsValid() {
		return a.IsValid() == b.IsValid()
	}
	if a.Type() != b.Type() {
		return false
	}
	switch a.Kind() {
	case reflect.Ptr, reflect.Interface:
		if a.IsNil() || b.IsNil() {
			return a.IsNil() == b.IsNil()
		}
		return deepEq(a.Elem(), b.Elem())
	case reflect.Struct:
		for i := 0; i < a.NumField(); i++ {
			if !deepEq(a.Field(i), b.Field(i)) {
				return false
			}
		}
		return true
	case reflect.Slice, reflect.Array:
		if a.Len() != b.Len() {
			return false
		}
		for i := 0; i < a.Len(); i++ {
			if !deepEq(a.Index(i), b.Index(i)) {
				return false
			}
		}
		return true
	default:
		return a.Interface() == b.Interface()
	}
}

// ---- environment stubs: available only in the symbolic engine ----
// Harnesses that need them are replayed by concrete re-execution inside the
// engine (mode "engine"); natively these functions only exist so that the
// packages holding such harnesses still compile.

func notNative(name string) { panic("zzvx." + name + " is only available in the symbolic engine") }

func Register(key string, v interface{})                                { notNative("Register") }
func Config(key string, on bool)                                        { notNative("Config") }
func DBPut(ueId string, ratingGroup uint32, field string, value string) { notNative("DBPut") }
func DBGet(ueId string, ratingGroup uint32, field string) (string, bool) {
	notNative("DBGet")
	return "", false
}
func DBWrites() int                                  { notNative("DBWrites"); return 0 }
func HTTPStatus(c interface{}) int                   { notNative("HTTPStatus"); return 0 }
func HTTPWrites(c interface{}) int                   { notNative("HTTPWrites"); return 0 }
func HTTPHeader(c interface{}, key string) string    { notNative("HTTPHeader"); return "" }
func HTTPBody(c interface{}) interface{}             { notNative("HTTPBody"); return nil }
func HTTPSetParam(c interface{}, key, value string)  { notNative("HTTPSetParam") }
func Notifications() int                             { notNative("Notifications"); return 0 }
func NotificationURI(i int) string                   { notNative("NotificationURI"); return "" }
func NotificationBody(i int) interface{}             { notNative("NotificationBody"); return nil }
func ServerPanicked() bool                           { notNative("ServerPanicked"); return false }
func AnswersWritten() int                            { notNative("AnswersWritten"); return 0 }
func ConnsOpened() int                               { notNative("ConnsOpened"); return 0 }
func ConnsLeaked() int                               { notNative("ConnsLeaked"); return 0 }
func DiamConn() interface{}                          { notNative("DiamConn"); return nil }
func LastAnswer(dst interface{}) bool                { notNative("LastAnswer"); return false }
func AnswerTo(req interface{}, dst interface{}) bool { notNative("AnswerTo"); return false }
func GinRoutes() int                                 { notNative("GinRoutes"); return 0 }
func GinRouteMethod(i int) string                    { notNative("GinRouteMethod"); return "" }
func GinRoutePath(i int) string                      { notNative("GinRoutePath"); return "" }
func GinChainLen(i int) int                          { notNative("GinChainLen"); return 0 }
func GinServe(i int, c interface{}) int              { notNative("GinServe"); return 0 }
func VerifyCalls() int                               { notNative("VerifyCalls"); return 0 }
func Watch(ptr interface{}, name string)             { notNative("Watch") }
func RacyLocations() int                             { notNative("RacyLocations"); return 0 }
func AssertLockDiscipline()                          { notNative("AssertLockDiscipline") }
func DeliverLateAnswers() int                        { notNative("DeliverLateAnswers"); return 0 }

func Parallel(fs ...func()) {
	var wg sync.WaitGroup
	for _, f := range fs {
		wg.Add(1)
		go func(f func()) { defer wg.Done(); f() }(f)
	}
	wg.Wait()
}
func Scheduler(budget int) {}

func Snapshot(ptr interface{}) interface{}       { notNative("Snapshot"); return nil }
func SameAs(snapshot, ptr interface{}) bool      { notNative("SameAs"); return false }
func Quiesce()                                   { notNative("Quiesce") }
func OmitAVP(msg interface{}, member string)     { notNative("OmitAVP") }
func HTTPSetBody(c interface{}, obj interface{}) { notNative("HTTPSetBody") }
