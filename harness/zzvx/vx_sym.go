// Package zzvx is the harness API of the gosx symbolic executor. This file is
// the symbolic side: body-less declarations the engine intercepts. It exists
// only in overlays (never in /repo's working tree).
package zzvx

import "time"

func Int64(label string) int64
func Int(label string) int
func Int32(label string) int32
func Int16(label string) int16
func Int8(label string) int8
func Uint64(label string) uint64
func Uint32(label string) uint32
func Uint16(label string) uint16
func Uint8(label string) uint8
func Byte(label string) byte
func Bool(label string) bool

// Bytes returns n fresh symbolic bytes (len = cap = n).
func Bytes(label string, n int) []byte

// String returns a string of n fresh symbolic bytes.
func String(label string, n int) string

// DecString returns the canonical decimal text of a fresh int64.
func DecString(label string) string

// Choice forks the exploration n ways and returns the index of this path.
func Choice(label string, n int) int

// Time returns an arbitrary instant (calendar fields and zone offset symbolic).
func Time(label string) time.Time

func Assume(cond bool)
func Assert(name string, cond bool)
func Fail(name string)
func Tag(name string, v interface{})
func Note(msg string)

// Symbolic reports whether the harness runs under the symbolic executor.
func Symbolic() bool

// LocksHeld returns the number of sync mutexes currently held.
func LocksHeld() int

// Emit records a line of concrete output (translator validation harnesses).
func Emit(s string)

// Hex returns the hex text of concrete bytes.
func Hex(b []byte) string

// Param returns the integer harness parameter name (from //gosx:p.name=N) or def.
func Param(name string, def int) int

// BytesEq reports whether a and b have the same length and contents.
func BytesEq(a, b []byte) bool

// Equal is deep equality that identifies nil and empty slices and compares
// pointers by pointee.
func Equal(a, b interface{}) bool

// And / Or / Implies evaluate both operands (no short-circuit fork).
func And(a, b bool) bool
func Or(a, b bool) bool
func Implies(a, b bool) bool

// ---- environment stubs (symbolic runs) ----

// Register publishes a value to the engine's environment stubs, e.g. the
// server handler closure for a Diameter command ("diam.server.272").
func Register(key string, v interface{})

// Config switches a stub behaviour on/off (e.g. "diam.dialMayFail").
func Config(key string, on bool)

// DBPut / DBGet access the in-memory charging-data table behind mongoapi.
func DBPut(ueId string, ratingGroup uint32, field string, value string)
func DBGet(ueId string, ratingGroup uint32, field string) (string, bool)
func DBWrites() int

// gin.Context response recorder.
func HTTPStatus(c interface{}) int
func HTTPWrites(c interface{}) int
func HTTPHeader(c interface{}, key string) string
func HTTPBody(c interface{}) interface{}
func HTTPSetParam(c interface{}, key, value string)

// Notification client recorder.
func Notifications() int
func NotificationURI(i int) string
func NotificationBody(i int) interface{}

func ServerPanicked() bool
func AnswersWritten() int
func ConnsOpened() int
func ConnsLeaked() int

// DiamConn returns a ghost diam.Conn (as interface{}; assert it to diam.Conn).
func DiamConn() interface{}

// LastAnswer copies the struct carried by the last Diameter answer written by
// a server handler into dst and reports whether there was one.
func LastAnswer(dst interface{}) bool

// AnswerTo copies the struct carried by the answer written for the given
// Diameter request (a *diam.Message) into dst; false if none was written.
func AnswerTo(req interface{}, dst interface{}) bool

// gin router stub access.
func GinRoutes() int
func GinRouteMethod(i int) string
func GinRoutePath(i int) string
func GinChainLen(i int) int
func GinServe(i int, c interface{}) int
func VerifyCalls() int

// Lockset discipline (C09): Watch registers the fields of *ptr as shared
// locations; objects stored into a sync.Map afterwards are watched
// automatically. AssertLockDiscipline reports every watched location that
// was written and whose accesses have no common mutex.
func Watch(ptr interface{}, name string)
func RacyLocations() int
func AssertLockDiscipline()

// DeliverLateAnswers delivers Diameter answers that were delayed beyond the
// client's timeout (Config "diam.answerMayBeLate"); returns how many reached a handler.
func DeliverLateAnswers() int

// Parallel runs the functions as concurrent threads under every interleaving
// at scheduling-point granularity (mutex, sync.Map, channel operations),
// within the context-switch budget (//gosx:p.preempt=N), and returns when all
// have finished. Scheduler(n) switches scheduling on for go statements.
func Parallel(fs ...func())
func Scheduler(budget int)

// Snapshot returns a deep copy of *ptr (maps, slices and pointers are
// followed; library objects, channels and locks are shared).
func Snapshot(ptr interface{}) interface{}

// SameAs: *ptr is deeply equal to the snapshot taken earlier (channels,
// library objects and lock state are not compared).
func SameAs(snapshot, ptr interface{}) bool

// Quiesce lets every other scheduled thread run until it has finished or is
// blocked for good.
func Quiesce()

// OmitAVP: the AVP of the given member ("ServiceRating.ConsumedUnits") is
// absent from the Diameter message built by Marshal.
func OmitAVP(msg interface{}, member string)

// HTTPSetBody sets the JSON body of the request behind c to the document that
// encodes *obj (c.GetRawData / openapi.Deserialize hand it to the handler).
func HTTPSetBody(c interface{}, obj interface{})
